"""Equivalence check for refactoring 4 (sar_leader/map_projection.py).

Run as

    cd /tmp/wt5/e35 && PYTHONPATH=/tmp/wt5/e35 /venv/bin/python _eq/4/equiv.py

(or through pytest). EXPECTED at the bottom of this file was recorded with the
UNCHANGED code (``--record`` prints the snapshots).
"""

import collections
import itertools
import json
import sys

import construct
import numpy as np

from ceos_alos2 import datatypes
from ceos_alos2.hierarchy import Group, Variable
from ceos_alos2.sar_leader import map_projection
from ceos_alos2.utils import to_dict


def snap(obj):
    """canonical, order- and type-preserving description of a result"""
    if isinstance(obj, Group):
        return {
            "Group": [obj.path, obj.url, snap(obj.data), snap(obj.attrs)],
        }
    if isinstance(obj, Variable):
        return {"Variable": [snap(obj.dims), snap(obj.data), snap(obj.attrs)]}
    if isinstance(obj, dict):
        return {type(obj).__name__: [[snap(k), snap(v)] for k, v in obj.items()]}
    if isinstance(obj, (list, tuple)):
        return {type(obj).__name__: [snap(v) for v in obj]}
    if isinstance(obj, np.ndarray):
        return {"ndarray": [str(obj.dtype), list(obj.shape), repr(obj.tolist())]}
    return {type(obj).__name__: repr(obj)}


def run(func, *args):
    try:
        result = func(*args)
    except BaseException as e:  # noqa: B902
        return {"raises": [type(e).__name__, str(e)]}
    return {"returns": snap(result)}


class StrSubclass(str):
    pass


def filter_cases():
    sections = {
        "utm_projection": {"type": "UNIVERSAL TRANSVERSE MERCATOR"},
        "ups_projection": {"type": "UNIVERSAL POLAR STEREOGRAPHIC"},
        "national_system_projection": {"projection_descriptor": "LCC"},
    }
    cases = {}
    designators = [
        "UTM-PROJECTION",
        "UPS-PROJECTION",
        "LCC-PROJECTION",
        "MER-PROJECTION",
        "utm-projection",
        "Ups-Projection",
        "lcc-",
        "mer-a-b-c",
        "-utm",
        "GEOREFERENCE-",
        "UTM -PROJECTION",
        " utm-projection",
        "utm_projection-x",
        "lccmer-x",
        "lcc,mer-x",
        "none-x",
    ]
    for designator in designators:
        cases[f"designator:{designator!r}"] = (
            {"a": 1, "map_projection_designator": designator, "z": 2} | sections,
        )
    cases["str_subclass"] = ({"map_projection_designator": StrSubclass("UPS-X")} | sections,)
    cases["designator_last"] = (sections | {"map_projection_designator": "LCC-PROJECTION"},)
    cases["missing_sections"] = (
        {"map_projection_designator": "UTM-PROJECTION", "ups_projection": {}, "other": 1},
    )
    cases["kept_section_missing"] = (
        {"map_projection_designator": "UTM-PROJECTION", "ups_projection": {}},
    )
    cases["existing_projection_key"] = (
        {"projection": "old", "map_projection_designator": "UPS-PROJECTION"} | sections,
    )
    cases["existing_projection_key_after"] = (
        {"map_projection_designator": "UPS-PROJECTION"} | sections | {"projection": "old"},
    )
    cases["unknown_with_none_key"] = (
        {None: "x", "map_projection_designator": "GEO-CODED"} | sections,
    )
    cases["known_with_none_key"] = (
        {None: "x", "map_projection_designator": "UTM-PROJECTION"} | sections,
    )
    cases["no_designator"] = ({"a": 1} | sections,)
    cases["designator_none"] = ({"map_projection_designator": None} | sections,)
    cases["empty"] = ({},)
    cases["ordered_dict"] = (
        collections.OrderedDict({"map_projection_designator": "MER-PROJECTION"} | sections),
    )
    cases["bad:no_dash"] = ({"map_projection_designator": "UTM"} | sections,)
    cases["bad:empty_designator"] = ({"map_projection_designator": ""} | sections,)
    cases["bad:bytes_designator"] = ({"map_projection_designator": b"UTM-PROJECTION"},)
    cases["bad:int_designator"] = ({"map_projection_designator": 1},)
    cases["bad:tuple_designator"] = ({"map_projection_designator": ("UTM-PROJECTION", {})},)
    cases["bad:mapping_none"] = (None,)
    cases["bad:mapping_list"] = (["map_projection_designator"],)
    return cases


def corner(first, second, names, units):
    return {names[0]: (first, {"units": units}), names[1]: (second, {"units": units})}


def corner_points(with_terrain=True):
    projected = ("northing", "easting")
    geographic = ("latitude", "longitude")
    mapping = {
        "projected": {
            "top_left_corner": corner(7.5, 10.0, projected, "km"),
            "top_right_corner": corner(7.5, 12.0, projected, "km"),
            "bottom_right_corner": corner(6.5, 12.0, projected, "km"),
            "bottom_left_corner": corner(6.5, 10.0, projected, "km"),
        },
        "geographic": {
            "top_left_corner": corner(61.5, -10.0, geographic, "deg"),
            "top_right_corner": corner(61.75, -9.0, geographic, "deg"),
            "bottom_right_corner": corner(60.5, float("nan"), geographic, "deg"),
            "bottom_left_corner": corner(60.25, -10.5, geographic, "deg"),
        },
    }
    if with_terrain:
        mapping["terrain_heights_relative_to_ellipsoid"] = {
            "top_left_corner": (1.0, {"units": "deg"}),
            "top_right_corner": (2.0, {"units": "deg"}),
            "bottom_right_corner": (3.0, {"units": "deg"}),
            "bottom_left_corner": (4.0, {"units": "deg"}),
        }
    return mapping


def corner_cases():
    full = corner_points()
    shuffled = {
        name: {key: section[key] for key in sorted(section)} for name, section in full.items()
    }
    extra_corner = {
        name: section | {"center_corner": {"northing": (0.0, {}), "extra": (1.0, {})}}
        for name, section in corner_points(with_terrain=False).items()
    }
    own_corner_variable = {
        "projected": {
            key: value | {"corner": (index, {"own": True})}
            for index, (key, value) in enumerate(full["projected"].items())
        }
    }
    uneven = {
        "geographic": {
            "top_left_corner": {"latitude": (1.0, {"units": "deg"})},
            "top_right_corner": {"longitude": (2.0, {"units": "deg"})},
            "bottom_right_corner": {"latitude": (3.0, {"units": "rad"}), "height": (4.0, {})},
            "bottom_left_corner": {},
        }
    }
    other_section = {"other": full["projected"]}
    return {
        "full": (full,),
        "without_terrain": (corner_points(with_terrain=False),),
        "projected_only": ({"projected": full["projected"]},),
        "geographic_first": ({"geographic": full["geographic"], "projected": full["projected"]},),
        "shuffled_corners": (shuffled,),
        "extra_corner": (extra_corner,),
        "own_corner_variable": (own_corner_variable,),
        "uneven_corners": (uneven,),
        "untransformed_section": (other_section,),
        "empty": ({},),
        "only_terrain": ({"terrain_heights_relative_to_ellipsoid": {"top_left_corner": 1}},),
        "empty_corners": (
            {"projected": {key: {} for key in full["projected"]}},
        ),
        "three_tuples": (
            {"projected": {key: {"northing": (1.0, {"u": 1}, "x")} for key in full["projected"]}},
        ),
        "bad:missing_corner": (
            {"projected": {k: v for k, v in full["projected"].items() if k != "bottom_right_corner"}},
        ),
        "bad:missing_first_corner": ({"projected": {"top_right_corner": {}}},),
        "bad:no_corners": ({"geographic": {}},),
        "bad:section_none": ({"projected": None},),
        "bad:section_list": ({"projected": [1, 2, 3, 4]},),
        "bad:section_tuple": ({"projected": ({}, {})},),
        "bad:corner_not_mapping": ({"projected": {key: 1 for key in full["projected"]}},),
        "bad:corner_none": ({"projected": {key: None for key in full["projected"]}},),
        "bad:entries_without_attrs": (
            {"projected": {key: {"northing": 1.0} for key in full["projected"]}},
        ),
        "bad:entries_1tuple": (
            {"projected": {key: {"northing": (1.0,)} for key in full["projected"]}},
        ),
        "bad:entries_mixed": (
            {
                "projected": {
                    key: {"northing": (1.0, {}) if index else (1.0,)}
                    for index, key in enumerate(full["projected"])
                }
            },
        ),
        "bad:entries_strings": (
            {"projected": {key: {"northing": "ab"} for key in full["projected"]}},
        ),
        "bad:mapping_none": (None,),
        "bad:mapping_list": ([1],),
    }


def coefficient_cases():
    attrs = {"formula": "E = A11 + A12 * R", "E": "easting"}
    forward = ({"A11": 1.0, "A12": 2.5, "A21": float("nan"), "A22": -1e-3}, attrs)
    backward = ({"B11": 0.0, "B12": 1.0}, {"formula": "R = B11"})
    return {
        "both": ({"map_projection_to_pixels": forward, "pixels_to_map_projection": backward},),
        "reordered": ({"pixels_to_map_projection": backward, "map_projection_to_pixels": forward},),
        "one": ({"map_projection_to_pixels": forward},),
        "unknown_name": ({"something_else": forward, "map_projection_to_pixels": backward},),
        "name_clash": ({"projected_to_image": forward, "map_projection_to_pixels": backward},),
        "name_clash_reordered": (
            {"map_projection_to_pixels": backward, "projected_to_image": forward},
        ),
        "single_coefficient": ({"a": ({"c0": 1}, {})},),
        "non_string_names": ({"a": ({1: 2, (3, 4): 5}, {"k": "v"})},),
        "attrs_not_mapping": ({"a": ({"c0": 1}, None)},),
        "ordered": ({"a": (collections.OrderedDict(z=1, y=2), {})},),
        "empty": ({},),
        "bad:no_coefficients": ({"a": ({}, {})},),
        "bad:entry_not_tuple": ({"a": {"c0": 1}},),
        "bad:entry_1tuple": ({"a": ({"c0": 1},)},),
        "bad:entry_3tuple": ({"a": ({"c0": 1}, {}, {})},),
        "bad:entry_none": ({"a": None},),
        "bad:entry_int": ({"a": 5},),
        "bad:data_not_mapping": ({"a": ([1, 2], {})},),
        "bad:data_none": ({"a": (None, {})},),
        "bad:mapping_none": (None,),
        "bad:mapping_list": ([1],),
    }


def full_mapping(designator="UTM-PROJECTION", **overrides):
    forward = ({"A11": 1.0, "A12": 2.5, "A13": 0.0, "A14": -1.0}, {"formula": "E = ...", "E": "e"})
    backward = ({"B11": 0.0, "B12": 1.0}, {"formula": "R = ..."})
    mapping = {
        "preamble": {"record_sequence_number": 2, "record_length": 1620},
        "blanks": "",
        "map_projection_general_information": {
            "map_projection_type": "GEOCODED",
            "number_of_pixels_per_line": 2000,
            "number_of_lines": 3000,
            "inter_line_distance_in_output_scene": (2.5, {"units": "m"}),
            "platform_headings": (float("nan"), {"units": "deg"}),
        },
        "map_projection_ellipsoid_parameters": {
            "reference_ellipsoid": "GRS80",
            "semimajor_axis": (6378.137, {"units": "m"}),
            "datum_shift_parameters": {"dx": (0.0, {"units": "m"})},
            "scale_factor": 0.0,
        },
        "map_projection_designator": designator,
        "utm_projection": {
            "type": "UNIVERSAL TRANSVERSE MERCATOR",
            "zone_number": "32",
            "map_origin": {"false_easting": (500000.0, {"units": "m"})},
            "center_of_projection": {"longitude": (9.0, {"units": "deg"})},
            "blanks1": "",
            "blanks2": "",
            "scale_factor": 0.9996,
        },
        "ups_projection": {
            "type": "UNIVERSAL POLAR STEREOGRAPHIC",
            "center_of_projection": {"latitude": (90.0, {"units": "deg"})},
            "scale_factor": 0.994,
        },
        "national_system_projection": {
            "projection_descriptor": "LAMBERT-CONFORMAL CONIC",
            "map_origin": {"false_easting": (0.0, {"units": "m"})},
            "standard_parallel": {"phi1": (30.0, {"units": "deg"}), "phi2": (60.0, {"units": "deg"})},
            "standard_parallel2": {"param1": (0.0, {"units": "deg"})},
            "central_meridian": {"param1": (0.0, {"units": "deg"})},
            "blanks": "",
        },
        "corner_points": corner_points(),
        "conversion_coefficients": {
            "map_projection_to_pixels": forward,
            "pixels_to_map_projection": backward,
        },
        "blanks": "",
    }
    return mapping | overrides


def map_projection_cases():
    return {
        "utm": (full_mapping(),),
        "ups": (full_mapping("UPS-PROJECTION"),),
        "lcc": (full_mapping("LCC-PROJECTION"),),
        "mer": (full_mapping("MER-PROJECTION"),),
        "unknown_designator": (full_mapping("GEO-REFERENCE"),),
        "reordered": (dict(reversed(list(full_mapping("LCC-PROJECTION").items()))),),
        "no_designator": (
            {k: v for k, v in full_mapping().items() if k != "map_projection_designator"},
        ),
        "minimal": ({"map_projection_designator": "UPS-X", "ups_projection": {"type": "UPS"}},),
        "empty": ({},),
        "bad:blank_designator": (full_mapping(""),),
        "bad:corner_points_none": (full_mapping(corner_points=None),),
        "bad:coefficients_none": (full_mapping(conversion_coefficients=None),),
        "bad:both": (full_mapping("", corner_points=None, conversion_coefficients=None),),
        "bad:mapping_none": (None,),
    }


def synthesize(con, overrides, counter, path=()):
    """bytes for a construct made of the library's fixed-width ascii fields"""
    if path in overrides:
        return overrides[path]
    if isinstance(con, construct.Renamed):
        return synthesize(con.subcon, overrides, counter, path + (con.name,))
    if isinstance(con, construct.Struct):
        return b"".join(synthesize(sub, overrides, counter, path) for sub in con.subcons)
    if isinstance(con, datatypes.Metadata):
        return synthesize(con.subcon, overrides, counter, path)

    size = con.sizeof()
    value = next(counter)
    if isinstance(con, datatypes.AsciiInteger):
        return str(value * 7).rjust(size).encode("ascii")
    if isinstance(con, datatypes.AsciiFloat):
        return f"{(-1) ** value * value * 1.25:.7E}".rjust(size).encode("ascii")
    if isinstance(con, datatypes.PaddedString):
        return f"text {value}"[:size].ljust(size).encode("ascii")
    if isinstance(con, construct.FormatField):
        return (value % 200).to_bytes(size, "big")
    raise TypeError(f"cannot synthesize {con!r} at {path}")


def encode_record(designator, **extra):
    overrides = {("map_projection_designator",): designator.ljust(32).encode("ascii")}
    overrides |= {tuple(k.split("/")): v for k, v in extra.items()}
    data = synthesize(map_projection.map_projection_record, overrides, itertools.count(1))
    assert len(data) == map_projection.map_projection_record.sizeof()
    return data


def parsed_cases():
    return {
        "utm": encode_record("UTM-PROJECTION"),
        "ups": encode_record("UPS-PROJECTION"),
        "lcc": encode_record("LCC-PROJECTION"),
        "mer": encode_record("MER-PROJECTION"),
        "unknown": encode_record("GEOCODED-XYZ"),
        "blank_corner": encode_record(
            "UTM-PROJECTION", **{"corner_points/projected/top_right_corner": b" " * 32}
        ),
        "bad:blank_designator": encode_record(""),
    }


def parse_and_transform(data):
    record = map_projection.map_projection_record.parse(data)

    return map_projection.transform_map_projection(to_dict(record))


def collect():
    results = {}
    for name, args in filter_cases().items():
        results[f"filter_map_projection/{name}"] = run(map_projection.filter_map_projection, *args)
    for name, args in corner_cases().items():
        results[f"transform_corner_points/{name}"] = run(
            map_projection.transform_corner_points, *args
        )
    for name, args in coefficient_cases().items():
        results[f"transform_conversion_coefficients/{name}"] = run(
            map_projection.transform_conversion_coefficients, *args
        )
    for name, args in map_projection_cases().items():
        results[f"transform_map_projection/{name}"] = run(
            map_projection.transform_map_projection, *args
        )
    for name, data in parsed_cases().items():
        results[f"parsed/{name}"] = run(parse_and_transform, data)

    # inputs are left alone, repeated calls give equal results
    for name, func, make in [
        ("filter_map_projection", map_projection.filter_map_projection, full_mapping),
        ("transform_corner_points", map_projection.transform_corner_points, corner_points),
        ("transform_map_projection", map_projection.transform_map_projection, full_mapping),
    ]:
        data = make()
        before = json.dumps(snap(data))
        first = func(data)
        second = func(data)
        results[f"{name}/input_unchanged"] = before == json.dumps(snap(data))
        results[f"{name}/repeatable"] = snap(first) == snap(second)

    # a mapping without designator is passed through as is
    plain = {"a": 1}
    results["filter_map_projection/identity"] = [
        map_projection.filter_map_projection(plain) is plain,
        map_projection.filter_map_projection(full_mapping()) is not None,
    ]

    # which objects are shared between / across the results
    data = corner_points()
    out = map_projection.transform_corner_points(data)
    again = map_projection.transform_corner_points(data)
    projected, geographic = out["projected"], out["geographic"]
    units = data["projected"]["top_left_corner"]["northing"][1]
    results["transform_corner_points/identity"] = [
        projected["corner"] is geographic["corner"],
        projected["corner"][0] is geographic["corner"][0],
        projected["corner"][1] is geographic["corner"][1],
        projected["corner"][2] is geographic["corner"][2],
        projected["corner"][1] is again["projected"]["corner"][1],
        projected["northing"][0] is projected["easting"][0],
        projected["northing"][0] is projected["corner"][0],
        projected["northing"][2] is units,
        [type(part).__name__ for part in projected["corner"]],
        [type(part).__name__ for part in projected["northing"]],
    ]
    # mutating one result must not leak into the next call
    projected["corner"][1].append("centre")
    projected["corner"][0].append("other")
    projected["northing"][0].append("other")
    results["transform_corner_points/after_mutation"] = snap(
        map_projection.transform_corner_points(data)
    )

    attrs = {"formula": "x"}
    out = map_projection.transform_conversion_coefficients({"a": ({"c0": 1, "c1": 2}, attrs)})
    data_, attrs_ = out["a"]
    results["transform_conversion_coefficients/identity"] = [
        attrs_ is attrs,
        data_["names"][2] is data_["coefficients"][2],
        type(out["a"]).__name__,
        type(data_["names"]).__name__,
    ]

    return results


def test_equivalence():
    actual = collect()
    expected = json.loads(EXPECTED)
    assert list(actual) == list(expected)
    for name in expected:
        assert actual[name] == expected[name], name


EXPECTED = r"""
{
 "filter_map_projection/designator:'UTM-PROJECTION'": {
  "returns": {
   "dict": [
    [
     {
      "str": "'a'"
     },
     {
      "int": "1"
     }
    ],
    [
     {
      "str": "'z'"
     },
     {
      "int": "2"
     }
    ],
    [
     {
      "str": "'projection'"
     },
     {
      "dict": [
       [
        {
         "str": "'type'"
        },
        {
         "str": "'UNIVERSAL TRANSVERSE MERCATOR'"
        }
       ]
      ]
     }
    ]
   ]
  }
 },
 "filter_map_projection/designator:'UPS-PROJECTION'": {
  "returns": {
   "dict": [
    [
     {
      "str": "'a'"
     },
     {
      "int": "1"
     }
    ],
    [
     {
      "str": "'z'"
     },
     {
      "int": "2"
     }
    ],
    [
     {
      "str": "'projection'"
     },
     {
      "dict": [
       [
        {
         "str": "'type'"
        },
        {
         "str": "'UNIVERSAL POLAR STEREOGRAPHIC'"
        }
       ]
      ]
     }
    ]
   ]
  }
 },
 "filter_map_projection/designator:'LCC-PROJECTION'": {
  "returns": {
   "dict": [
    [
     {
      "str": "'a'"
     },
     {
      "int": "1"
     }
    ],
    [
     {
      "str": "'z'"
     },
     {
      "int": "2"
     }
    ],
    [
     {
      "str": "'projection'"
     },
     {
      "dict": [
       [
        {
         "str": "'projection_descriptor'"
        },
        {
         "str": "'LCC'"
        }
       ]
      ]
     }
    ]
   ]
  }
 },
 "filter_map_projection/designator:'MER-PROJECTION'": {
  "returns": {
   "dict": [
    [
     {
      "str": "'a'"
     },
     {
      "int": "1"
     }
    ],
    [
     {
      "str": "'z'"
     },
     {
      "int": "2"
     }
    ],
    [
     {
      "str": "'projection'"
     },
     {
      "dict": [
       [
        {
         "str": "'projection_descriptor'"
        },
        {
         "str": "'LCC'"
        }
       ]
      ]
     }
    ]
   ]
  }
 },
 "filter_map_projection/designator:'utm-projection'": {
  "returns": {
   "dict": [
    [
     {
      "str": "'a'"
     },
     {
      "int": "1"
     }
    ],
    [
     {
      "str": "'z'"
     },
     {
      "int": "2"
     }
    ],
    [
     {
      "str": "'projection'"
     },
     {
      "dict": [
       [
        {
         "str": "'type'"
        },
        {
         "str": "'UNIVERSAL TRANSVERSE MERCATOR'"
        }
       ]
      ]
     }
    ]
   ]
  }
 },
 "filter_map_projection/designator:'Ups-Projection'": {
  "returns": {
   "dict": [
    [
     {
      "str": "'a'"
     },
     {
      "int": "1"
     }
    ],
    [
     {
      "str": "'z'"
     },
     {
      "int": "2"
     }
    ],
    [
     {
      "str": "'projection'"
     },
     {
      "dict": [
       [
        {
         "str": "'type'"
        },
        {
         "str": "'UNIVERSAL POLAR STEREOGRAPHIC'"
        }
       ]
      ]
     }
    ]
   ]
  }
 },
 "filter_map_projection/designator:'lcc-'": {
  "returns": {
   "dict": [
    [
     {
      "str": "'a'"
     },
     {
      "int": "1"
     }
    ],
    [
     {
      "str": "'z'"
     },
     {
      "int": "2"
     }
    ],
    [
     {
      "str": "'projection'"
     },
     {
      "dict": [
       [
        {
         "str": "'projection_descriptor'"
        },
        {
         "str": "'LCC'"
        }
       ]
      ]
     }
    ]
   ]
  }
 },
 "filter_map_projection/designator:'mer-a-b-c'": {
  "returns": {
   "dict": [
    [
     {
      "str": "'a'"
     },
     {
      "int": "1"
     }
    ],
    [
     {
      "str": "'z'"
     },
     {
      "int": "2"
     }
    ],
    [
     {
      "str": "'projection'"
     },
     {
      "dict": [
       [
        {
         "str": "'projection_descriptor'"
        },
        {
         "str": "'LCC'"
        }
       ]
      ]
     }
    ]
   ]
  }
 },
 "filter_map_projection/designator:'-utm'": {
  "returns": {
   "dict": [
    [
     {
      "str": "'a'"
     },
     {
      "int": "1"
     }
    ],
    [
     {
      "str": "'z'"
     },
     {
      "int": "2"
     }
    ]
   ]
  }
 },
 "filter_map_projection/designator:'GEOREFERENCE-'": {
  "returns": {
   "dict": [
    [
     {
      "str": "'a'"
     },
     {
      "int": "1"
     }
    ],
    [
     {
      "str": "'z'"
     },
     {
      "int": "2"
     }
    ]
   ]
  }
 },
 "filter_map_projection/designator:'UTM -PROJECTION'": {
  "returns": {
   "dict": [
    [
     {
      "str": "'a'"
     },
     {
      "int": "1"
     }
    ],
    [
     {
      "str": "'z'"
     },
     {
      "int": "2"
     }
    ]
   ]
  }
 },
 "filter_map_projection/designator:' utm-projection'": {
  "returns": {
   "dict": [
    [
     {
      "str": "'a'"
     },
     {
      "int": "1"
     }
    ],
    [
     {
      "str": "'z'"
     },
     {
      "int": "2"
     }
    ]
   ]
  }
 },
 "filter_map_projection/designator:'utm_projection-x'": {
  "returns": {
   "dict": [
    [
     {
      "str": "'a'"
     },
     {
      "int": "1"
     }
    ],
    [
     {
      "str": "'z'"
     },
     {
      "int": "2"
     }
    ]
   ]
  }
 },
 "filter_map_projection/designator:'lccmer-x'": {
  "returns": {
   "dict": [
    [
     {
      "str": "'a'"
     },
     {
      "int": "1"
     }
    ],
    [
     {
      "str": "'z'"
     },
     {
      "int": "2"
     }
    ]
   ]
  }
 },
 "filter_map_projection/designator:'lcc,mer-x'": {
  "returns": {
   "dict": [
    [
     {
      "str": "'a'"
     },
     {
      "int": "1"
     }
    ],
    [
     {
      "str": "'z'"
     },
     {
      "int": "2"
     }
    ]
   ]
  }
 },
 "filter_map_projection/designator:'none-x'": {
  "returns": {
   "dict": [
    [
     {
      "str": "'a'"
     },
     {
      "int": "1"
     }
    ],
    [
     {
      "str": "'z'"
     },
     {
      "int": "2"
     }
    ]
   ]
  }
 },
 "filter_map_projection/str_subclass": {
  "returns": {
   "dict": [
    [
     {
      "str": "'projection'"
     },
     {
      "dict": [
       [
        {
         "str": "'type'"
        },
        {
         "str": "'UNIVERSAL POLAR STEREOGRAPHIC'"
        }
       ]
      ]
     }
    ]
   ]
  }
 },
 "filter_map_projection/designator_last": {
  "returns": {
   "dict": [
    [
     {
      "str": "'projection'"
     },
     {
      "dict": [
       [
        {
         "str": "'projection_descriptor'"
        },
        {
         "str": "'LCC'"
        }
       ]
      ]
     }
    ]
   ]
  }
 },
 "filter_map_projection/missing_sections": {
  "returns": {
   "dict": [
    [
     {
      "str": "'other'"
     },
     {
      "int": "1"
     }
    ]
   ]
  }
 },
 "filter_map_projection/kept_section_missing": {
  "returns": {
   "dict": []
  }
 },
 "filter_map_projection/existing_projection_key": {
  "returns": {
   "dict": [
    [
     {
      "str": "'projection'"
     },
     {
      "dict": [
       [
        {
         "str": "'type'"
        },
        {
         "str": "'UNIVERSAL POLAR STEREOGRAPHIC'"
        }
       ]
      ]
     }
    ]
   ]
  }
 },
 "filter_map_projection/existing_projection_key_after": {
  "returns": {
   "dict": [
    [
     {
      "str": "'projection'"
     },
     {
      "str": "'old'"
     }
    ]
   ]
  }
 },
 "filter_map_projection/unknown_with_none_key": {
  "returns": {
   "dict": [
    [
     {
      "str": "'projection'"
     },
     {
      "str": "'x'"
     }
    ]
   ]
  }
 },
 "filter_map_projection/known_with_none_key": {
  "returns": {
   "dict": [
    [
     {
      "NoneType": "None"
     },
     {
      "str": "'x'"
     }
    ],
    [
     {
      "str": "'projection'"
     },
     {
      "dict": [
       [
        {
         "str": "'type'"
        },
        {
         "str": "'UNIVERSAL TRANSVERSE MERCATOR'"
        }
       ]
      ]
     }
    ]
   ]
  }
 },
 "filter_map_projection/no_designator": {
  "returns": {
   "dict": [
    [
     {
      "str": "'a'"
     },
     {
      "int": "1"
     }
    ],
    [
     {
      "str": "'utm_projection'"
     },
     {
      "dict": [
       [
        {
         "str": "'type'"
        },
        {
         "str": "'UNIVERSAL TRANSVERSE MERCATOR'"
        }
       ]
      ]
     }
    ],
    [
     {
      "str": "'ups_projection'"
     },
     {
      "dict": [
       [
        {
         "str": "'type'"
        },
        {
         "str": "'UNIVERSAL POLAR STEREOGRAPHIC'"
        }
       ]
      ]
     }
    ],
    [
     {
      "str": "'national_system_projection'"
     },
     {
      "dict": [
       [
        {
         "str": "'projection_descriptor'"
        },
        {
         "str": "'LCC'"
        }
       ]
      ]
     }
    ]
   ]
  }
 },
 "filter_map_projection/designator_none": {
  "returns": {
   "dict": [
    [
     {
      "str": "'map_projection_designator'"
     },
     {
      "NoneType": "None"
     }
    ],
    [
     {
      "str": "'utm_projection'"
     },
     {
      "dict": [
       [
        {
         "str": "'type'"
        },
        {
         "str": "'UNIVERSAL TRANSVERSE MERCATOR'"
        }
       ]
      ]
     }
    ],
    [
     {
      "str": "'ups_projection'"
     },
     {
      "dict": [
       [
        {
         "str": "'type'"
        },
        {
         "str": "'UNIVERSAL POLAR STEREOGRAPHIC'"
        }
       ]
      ]
     }
    ],
    [
     {
      "str": "'national_system_projection'"
     },
     {
      "dict": [
       [
        {
         "str": "'projection_descriptor'"
        },
        {
         "str": "'LCC'"
        }
       ]
      ]
     }
    ]
   ]
  }
 },
 "filter_map_projection/empty": {
  "returns": {
   "dict": []
  }
 },
 "filter_map_projection/ordered_dict": {
  "returns": {
   "dict": [
    [
     {
      "str": "'projection'"
     },
     {
      "dict": [
       [
        {
         "str": "'projection_descriptor'"
        },
        {
         "str": "'LCC'"
        }
       ]
      ]
     }
    ]
   ]
  }
 },
 "filter_map_projection/bad:no_dash": {
  "raises": [
   "ValueError",
   "not enough values to unpack (expected 2, got 1)"
  ]
 },
 "filter_map_projection/bad:empty_designator": {
  "raises": [
   "ValueError",
   "not enough values to unpack (expected 2, got 1)"
  ]
 },
 "filter_map_projection/bad:bytes_designator": {
  "raises": [
   "TypeError",
   "a bytes-like object is required, not 'str'"
  ]
 },
 "filter_map_projection/bad:int_designator": {
  "raises": [
   "AttributeError",
   "'int' object has no attribute 'lower'"
  ]
 },
 "filter_map_projection/bad:tuple_designator": {
  "raises": [
   "AttributeError",
   "'tuple' object has no attribute 'lower'"
  ]
 },
 "filter_map_projection/bad:mapping_none": {
  "raises": [
   "AttributeError",
   "'NoneType' object has no attribute 'get'"
  ]
 },
 "filter_map_projection/bad:mapping_list": {
  "raises": [
   "AttributeError",
   "'list' object has no attribute 'get'"
  ]
 },
 "transform_corner_points/full": {
  "returns": {
   "dict": [
    [
     {
      "str": "'projected'"
     },
     {
      "dict": [
       [
        {
         "str": "'corner'"
        },
        {
         "tuple": [
          {
           "list": [
            {
             "str": "'corner'"
            }
           ]
          },
          {
           "list": [
            {
             "str": "'top_left'"
            },
            {
             "str": "'top_right'"
            },
            {
             "str": "'bottom_right'"
            },
            {
             "str": "'bottom_left'"
            }
           ]
          },
          {
           "dict": []
          }
         ]
        }
       ],
       [
        {
         "str": "'northing'"
        },
        {
         "tuple": [
          {
           "list": [
            {
             "str": "'corner'"
            }
           ]
          },
          {
           "list": [
            {
             "float": "7.5"
            },
            {
             "float": "7.5"
            },
            {
             "float": "6.5"
            },
            {
             "float": "6.5"
            }
           ]
          },
          {
           "dict": [
            [
             {
              "str": "'units'"
             },
             {
              "str": "'km'"
             }
            ]
           ]
          }
         ]
        }
       ],
       [
        {
         "str": "'easting'"
        },
        {
         "tuple": [
          {
           "list": [
            {
             "str": "'corner'"
            }
           ]
          },
          {
           "list": [
            {
             "float": "10.0"
            },
            {
             "float": "12.0"
            },
            {
             "float": "12.0"
            },
            {
             "float": "10.0"
            }
           ]
          },
          {
           "dict": [
            [
             {
              "str": "'units'"
             },
             {
              "str": "'km'"
             }
            ]
           ]
          }
         ]
        }
       ]
      ]
     }
    ],
    [
     {
      "str": "'geographic'"
     },
     {
      "dict": [
       [
        {
         "str": "'corner'"
        },
        {
         "tuple": [
          {
           "list": [
            {
             "str": "'corner'"
            }
           ]
          },
          {
           "list": [
            {
             "str": "'top_left'"
            },
            {
             "str": "'top_right'"
            },
            {
             "str": "'bottom_right'"
            },
            {
             "str": "'bottom_left'"
            }
           ]
          },
          {
           "dict": []
          }
         ]
        }
       ],
       [
        {
         "str": "'latitude'"
        },
        {
         "tuple": [
          {
           "list": [
            {
             "str": "'corner'"
            }
           ]
          },
          {
           "list": [
            {
             "float": "61.5"
            },
            {
             "float": "61.75"
            },
            {
             "float": "60.5"
            },
            {
             "float": "60.25"
            }
           ]
          },
          {
           "dict": [
            [
             {
              "str": "'units'"
             },
             {
              "str": "'deg'"
             }
            ]
           ]
          }
         ]
        }
       ],
       [
        {
         "str": "'longitude'"
        },
        {
         "tuple": [
          {
           "list": [
            {
             "str": "'corner'"
            }
           ]
          },
          {
           "list": [
            {
             "float": "-10.0"
            },
            {
             "float": "-9.0"
            },
            {
             "float": "nan"
            },
            {
             "float": "-10.5"
            }
           ]
          },
          {
           "dict": [
            [
             {
              "str": "'units'"
             },
             {
              "str": "'deg'"
             }
            ]
           ]
          }
         ]
        }
       ]
      ]
     }
    ]
   ]
  }
 },
 "transform_corner_points/without_terrain": {
  "returns": {
   "dict": [
    [
     {
      "str": "'projected'"
     },
     {
      "dict": [
       [
        {
         "str": "'corner'"
        },
        {
         "tuple": [
          {
           "list": [
            {
             "str": "'corner'"
            }
           ]
          },
          {
           "list": [
            {
             "str": "'top_left'"
            },
            {
             "str": "'top_right'"
            },
            {
             "str": "'bottom_right'"
            },
            {
             "str": "'bottom_left'"
            }
           ]
          },
          {
           "dict": []
          }
         ]
        }
       ],
       [
        {
         "str": "'northing'"
        },
        {
         "tuple": [
          {
           "list": [
            {
             "str": "'corner'"
            }
           ]
          },
          {
           "list": [
            {
             "float": "7.5"
            },
            {
             "float": "7.5"
            },
            {
             "float": "6.5"
            },
            {
             "float": "6.5"
            }
           ]
          },
          {
           "dict": [
            [
             {
              "str": "'units'"
             },
             {
              "str": "'km'"
             }
            ]
           ]
          }
         ]
        }
       ],
       [
        {
         "str": "'easting'"
        },
        {
         "tuple": [
          {
           "list": [
            {
             "str": "'corner'"
            }
           ]
          },
          {
           "list": [
            {
             "float": "10.0"
            },
            {
             "float": "12.0"
            },
            {
             "float": "12.0"
            },
            {
             "float": "10.0"
            }
           ]
          },
          {
           "dict": [
            [
             {
              "str": "'units'"
             },
             {
              "str": "'km'"
             }
            ]
           ]
          }
         ]
        }
       ]
      ]
     }
    ],
    [
     {
      "str": "'geographic'"
     },
     {
      "dict": [
       [
        {
         "str": "'corner'"
        },
        {
         "tuple": [
          {
           "list": [
            {
             "str": "'corner'"
            }
           ]
          },
          {
           "list": [
            {
             "str": "'top_left'"
            },
            {
             "str": "'top_right'"
            },
            {
             "str": "'bottom_right'"
            },
            {
             "str": "'bottom_left'"
            }
           ]
          },
          {
           "dict": []
          }
         ]
        }
       ],
       [
        {
         "str": "'latitude'"
        },
        {
         "tuple": [
          {
           "list": [
            {
             "str": "'corner'"
            }
           ]
          },
          {
           "list": [
            {
             "float": "61.5"
            },
            {
             "float": "61.75"
            },
            {
             "float": "60.5"
            },
            {
             "float": "60.25"
            }
           ]
          },
          {
           "dict": [
            [
             {
              "str": "'units'"
             },
             {
              "str": "'deg'"
             }
            ]
           ]
          }
         ]
        }
       ],
       [
        {
         "str": "'longitude'"
        },
        {
         "tuple": [
          {
           "list": [
            {
             "str": "'corner'"
            }
           ]
          },
          {
           "list": [
            {
             "float": "-10.0"
            },
            {
             "float": "-9.0"
            },
            {
             "float": "nan"
            },
            {
             "float": "-10.5"
            }
           ]
          },
          {
           "dict": [
            [
             {
              "str": "'units'"
             },
             {
              "str": "'deg'"
             }
            ]
           ]
          }
         ]
        }
       ]
      ]
     }
    ]
   ]
  }
 },
 "transform_corner_points/projected_only": {
  "returns": {
   "dict": [
    [
     {
      "str": "'projected'"
     },
     {
      "dict": [
       [
        {
         "str": "'corner'"
        },
        {
         "tuple": [
          {
           "list": [
            {
             "str": "'corner'"
            }
           ]
          },
          {
           "list": [
            {
             "str": "'top_left'"
            },
            {
             "str": "'top_right'"
            },
            {
             "str": "'bottom_right'"
            },
            {
             "str": "'bottom_left'"
            }
           ]
          },
          {
           "dict": []
          }
         ]
        }
       ],
       [
        {
         "str": "'northing'"
        },
        {
         "tuple": [
          {
           "list": [
            {
             "str": "'corner'"
            }
           ]
          },
          {
           "list": [
            {
             "float": "7.5"
            },
            {
             "float": "7.5"
            },
            {
             "float": "6.5"
            },
            {
             "float": "6.5"
            }
           ]
          },
          {
           "dict": [
            [
             {
              "str": "'units'"
             },
             {
              "str": "'km'"
             }
            ]
           ]
          }
         ]
        }
       ],
       [
        {
         "str": "'easting'"
        },
        {
         "tuple": [
          {
           "list": [
            {
             "str": "'corner'"
            }
           ]
          },
          {
           "list": [
            {
             "float": "10.0"
            },
            {
             "float": "12.0"
            },
            {
             "float": "12.0"
            },
            {
             "float": "10.0"
            }
           ]
          },
          {
           "dict": [
            [
             {
              "str": "'units'"
             },
             {
              "str": "'km'"
             }
            ]
           ]
          }
         ]
        }
       ]
      ]
     }
    ]
   ]
  }
 },
 "transform_corner_points/geographic_first": {
  "returns": {
   "dict": [
    [
     {
      "str": "'geographic'"
     },
     {
      "dict": [
       [
        {
         "str": "'corner'"
        },
        {
         "tuple": [
          {
           "list": [
            {
             "str": "'corner'"
            }
           ]
          },
          {
           "list": [
            {
             "str": "'top_left'"
            },
            {
             "str": "'top_right'"
            },
            {
             "str": "'bottom_right'"
            },
            {
             "str": "'bottom_left'"
            }
           ]
          },
          {
           "dict": []
          }
         ]
        }
       ],
       [
        {
         "str": "'latitude'"
        },
        {
         "tuple": [
          {
           "list": [
            {
             "str": "'corner'"
            }
           ]
          },
          {
           "list": [
            {
             "float": "61.5"
            },
            {
             "float": "61.75"
            },
            {
             "float": "60.5"
            },
            {
             "float": "60.25"
            }
           ]
          },
          {
           "dict": [
            [
             {
              "str": "'units'"
             },
             {
              "str": "'deg'"
             }
            ]
           ]
          }
         ]
        }
       ],
       [
        {
         "str": "'longitude'"
        },
        {
         "tuple": [
          {
           "list": [
            {
             "str": "'corner'"
            }
           ]
          },
          {
           "list": [
            {
             "float": "-10.0"
            },
            {
             "float": "-9.0"
            },
            {
             "float": "nan"
            },
            {
             "float": "-10.5"
            }
           ]
          },
          {
           "dict": [
            [
             {
              "str": "'units'"
             },
             {
              "str": "'deg'"
             }
            ]
           ]
          }
         ]
        }
       ]
      ]
     }
    ],
    [
     {
      "str": "'projected'"
     },
     {
      "dict": [
       [
        {
         "str": "'corner'"
        },
        {
         "tuple": [
          {
           "list": [
            {
             "str": "'corner'"
            }
           ]
          },
          {
           "list": [
            {
             "str": "'top_left'"
            },
            {
             "str": "'top_right'"
            },
            {
             "str": "'bottom_right'"
            },
            {
             "str": "'bottom_left'"
            }
           ]
          },
          {
           "dict": []
          }
         ]
        }
       ],
       [
        {
         "str": "'northing'"
        },
        {
         "tuple": [
          {
           "list": [
            {
             "str": "'corner'"
            }
           ]
          },
          {
           "list": [
            {
             "float": "7.5"
            },
            {
             "float": "7.5"
            },
            {
             "float": "6.5"
            },
            {
             "float": "6.5"
            }
           ]
          },
          {
           "dict": [
            [
             {
              "str": "'units'"
             },
             {
              "str": "'km'"
             }
            ]
           ]
          }
         ]
        }
       ],
       [
        {
         "str": "'easting'"
        },
        {
         "tuple": [
          {
           "list": [
            {
             "str": "'corner'"
            }
           ]
          },
          {
           "list": [
            {
             "float": "10.0"
            },
            {
             "float": "12.0"
            },
            {
             "float": "12.0"
            },
            {
             "float": "10.0"
            }
           ]
          },
          {
           "dict": [
            [
             {
              "str": "'units'"
             },
             {
              "str": "'km'"
             }
            ]
           ]
          }
         ]
        }
       ]
      ]
     }
    ]
   ]
  }
 },
 "transform_corner_points/shuffled_corners": {
  "returns": {
   "dict": [
    [
     {
      "str": "'projected'"
     },
     {
      "dict": [
       [
        {
         "str": "'corner'"
        },
        {
         "tuple": [
          {
           "list": [
            {
             "str": "'corner'"
            }
           ]
          },
          {
           "list": [
            {
             "str": "'top_left'"
            },
            {
             "str": "'top_right'"
            },
            {
             "str": "'bottom_right'"
            },
            {
             "str": "'bottom_left'"
            }
           ]
          },
          {
           "dict": []
          }
         ]
        }
       ],
       [
        {
         "str": "'northing'"
        },
        {
         "tuple": [
          {
           "list": [
            {
             "str": "'corner'"
            }
           ]
          },
          {
           "list": [
            {
             "float": "7.5"
            },
            {
             "float": "7.5"
            },
            {
             "float": "6.5"
            },
            {
             "float": "6.5"
            }
           ]
          },
          {
           "dict": [
            [
             {
              "str": "'units'"
             },
             {
              "str": "'km'"
             }
            ]
           ]
          }
         ]
        }
       ],
       [
        {
         "str": "'easting'"
        },
        {
         "tuple": [
          {
           "list": [
            {
             "str": "'corner'"
            }
           ]
          },
          {
           "list": [
            {
             "float": "10.0"
            },
            {
             "float": "12.0"
            },
            {
             "float": "12.0"
            },
            {
             "float": "10.0"
            }
           ]
          },
          {
           "dict": [
            [
             {
              "str": "'units'"
             },
             {
              "str": "'km'"
             }
            ]
           ]
          }
         ]
        }
       ]
      ]
     }
    ],
    [
     {
      "str": "'geographic'"
     },
     {
      "dict": [
       [
        {
         "str": "'corner'"
        },
        {
         "tuple": [
          {
           "list": [
            {
             "str": "'corner'"
            }
           ]
          },
          {
           "list": [
            {
             "str": "'top_left'"
            },
            {
             "str": "'top_right'"
            },
            {
             "str": "'bottom_right'"
            },
            {
             "str": "'bottom_left'"
            }
           ]
          },
          {
           "dict": []
          }
         ]
        }
       ],
       [
        {
         "str": "'latitude'"
        },
        {
         "tuple": [
          {
           "list": [
            {
             "str": "'corner'"
            }
           ]
          },
          {
           "list": [
            {
             "float": "61.5"
            },
            {
             "float": "61.75"
            },
            {
             "float": "60.5"
            },
            {
             "float": "60.25"
            }
           ]
          },
          {
           "dict": [
            [
             {
              "str": "'units'"
             },
             {
              "str": "'deg'"
             }
            ]
           ]
          }
         ]
        }
       ],
       [
        {
         "str": "'longitude'"
        },
        {
         "tuple": [
          {
           "list": [
            {
             "str": "'corner'"
            }
           ]
          },
          {
           "list": [
            {
             "float": "-10.0"
            },
            {
             "float": "-9.0"
            },
            {
             "float": "nan"
            },
            {
             "float": "-10.5"
            }
           ]
          },
          {
           "dict": [
            [
             {
              "str": "'units'"
             },
             {
              "str": "'deg'"
             }
            ]
           ]
          }
         ]
        }
       ]
      ]
     }
    ]
   ]
  }
 },
 "transform_corner_points/extra_corner": {
  "returns": {
   "dict": [
    [
     {
      "str": "'projected'"
     },
     {
      "dict": [
       [
        {
         "str": "'corner'"
        },
        {
         "tuple": [
          {
           "list": [
            {
             "str": "'corner'"
            }
           ]
          },
          {
           "list": [
            {
             "str": "'top_left'"
            },
            {
             "str": "'top_right'"
            },
            {
             "str": "'bottom_right'"
            },
            {
             "str": "'bottom_left'"
            }
           ]
          },
          {
           "dict": []
          }
         ]
        }
       ],
       [
        {
         "str": "'northing'"
        },
        {
         "tuple": [
          {
           "list": [
            {
             "str": "'corner'"
            }
           ]
          },
          {
           "list": [
            {
             "float": "7.5"
            },
            {
             "float": "7.5"
            },
            {
             "float": "6.5"
            },
            {
             "float": "6.5"
            }
           ]
          },
          {
           "dict": [
            [
             {
              "str": "'units'"
             },
             {
              "str": "'km'"
             }
            ]
           ]
          }
         ]
        }
       ],
       [
        {
         "str": "'easting'"
        },
        {
         "tuple": [
          {
           "list": [
            {
             "str": "'corner'"
            }
           ]
          },
          {
           "list": [
            {
             "float": "10.0"
            },
            {
             "float": "12.0"
            },
            {
             "float": "12.0"
            },
            {
             "float": "10.0"
            }
           ]
          },
          {
           "dict": [
            [
             {
              "str": "'units'"
             },
             {
              "str": "'km'"
             }
            ]
           ]
          }
         ]
        }
       ]
      ]
     }
    ],
    [
     {
      "str": "'geographic'"
     },
     {
      "dict": [
       [
        {
         "str": "'corner'"
        },
        {
         "tuple": [
          {
           "list": [
            {
             "str": "'corner'"
            }
           ]
          },
          {
           "list": [
            {
             "str": "'top_left'"
            },
            {
             "str": "'top_right'"
            },
            {
             "str": "'bottom_right'"
            },
            {
             "str": "'bottom_left'"
            }
           ]
          },
          {
           "dict": []
          }
         ]
        }
       ],
       [
        {
         "str": "'latitude'"
        },
        {
         "tuple": [
          {
           "list": [
            {
             "str": "'corner'"
            }
           ]
          },
          {
           "list": [
            {
             "float": "61.5"
            },
            {
             "float": "61.75"
            },
            {
             "float": "60.5"
            },
            {
             "float": "60.25"
            }
           ]
          },
          {
           "dict": [
            [
             {
              "str": "'units'"
             },
             {
              "str": "'deg'"
             }
            ]
           ]
          }
         ]
        }
       ],
       [
        {
         "str": "'longitude'"
        },
        {
         "tuple": [
          {
           "list": [
            {
             "str": "'corner'"
            }
           ]
          },
          {
           "list": [
            {
             "float": "-10.0"
            },
            {
             "float": "-9.0"
            },
            {
             "float": "nan"
            },
            {
             "float": "-10.5"
            }
           ]
          },
          {
           "dict": [
            [
             {
              "str": "'units'"
             },
             {
              "str": "'deg'"
             }
            ]
           ]
          }
         ]
        }
       ]
      ]
     }
    ]
   ]
  }
 },
 "transform_corner_points/own_corner_variable": {
  "returns": {
   "dict": [
    [
     {
      "str": "'projected'"
     },
     {
      "dict": [
       [
        {
         "str": "'corner'"
        },
        {
         "tuple": [
          {
           "list": [
            {
             "str": "'corner'"
            }
           ]
          },
          {
           "list": [
            {
             "int": "0"
            },
            {
             "int": "1"
            },
            {
             "int": "2"
            },
            {
             "int": "3"
            }
           ]
          },
          {
           "dict": [
            [
             {
              "str": "'own'"
             },
             {
              "bool": "True"
             }
            ]
           ]
          }
         ]
        }
       ],
       [
        {
         "str": "'northing'"
        },
        {
         "tuple": [
          {
           "list": [
            {
             "str": "'corner'"
            }
           ]
          },
          {
           "list": [
            {
             "float": "7.5"
            },
            {
             "float": "7.5"
            },
            {
             "float": "6.5"
            },
            {
             "float": "6.5"
            }
           ]
          },
          {
           "dict": [
            [
             {
              "str": "'units'"
             },
             {
              "str": "'km'"
             }
            ]
           ]
          }
         ]
        }
       ],
       [
        {
         "str": "'easting'"
        },
        {
         "tuple": [
          {
           "list": [
            {
             "str": "'corner'"
            }
           ]
          },
          {
           "list": [
            {
             "float": "10.0"
            },
            {
             "float": "12.0"
            },
            {
             "float": "12.0"
            },
            {
             "float": "10.0"
            }
           ]
          },
          {
           "dict": [
            [
             {
              "str": "'units'"
             },
             {
              "str": "'km'"
             }
            ]
           ]
          }
         ]
        }
       ]
      ]
     }
    ]
   ]
  }
 },
 "transform_corner_points/uneven_corners": {
  "returns": {
   "dict": [
    [
     {
      "str": "'geographic'"
     },
     {
      "dict": [
       [
        {
         "str": "'corner'"
        },
        {
         "tuple": [
          {
           "list": [
            {
             "str": "'corner'"
            }
           ]
          },
          {
           "list": [
            {
             "str": "'top_left'"
            },
            {
             "str": "'top_right'"
            },
            {
             "str": "'bottom_right'"
            },
            {
             "str": "'bottom_left'"
            }
           ]
          },
          {
           "dict": []
          }
         ]
        }
       ],
       [
        {
         "str": "'latitude'"
        },
        {
         "tuple": [
          {
           "list": [
            {
             "str": "'corner'"
            }
           ]
          },
          {
           "list": [
            {
             "float": "1.0"
            },
            {
             "float": "3.0"
            }
           ]
          },
          {
           "dict": [
            [
             {
              "str": "'units'"
             },
             {
              "str": "'deg'"
             }
            ]
           ]
          }
         ]
        }
       ],
       [
        {
         "str": "'longitude'"
        },
        {
         "tuple": [
          {
           "list": [
            {
             "str": "'corner'"
            }
           ]
          },
          {
           "list": [
            {
             "float": "2.0"
            }
           ]
          },
          {
           "dict": [
            [
             {
              "str": "'units'"
             },
             {
              "str": "'deg'"
             }
            ]
           ]
          }
         ]
        }
       ],
       [
        {
         "str": "'height'"
        },
        {
         "tuple": [
          {
           "list": [
            {
             "str": "'corner'"
            }
           ]
          },
          {
           "list": [
            {
             "float": "4.0"
            }
           ]
          },
          {
           "dict": []
          }
         ]
        }
       ]
      ]
     }
    ]
   ]
  }
 },
 "transform_corner_points/untransformed_section": {
  "returns": {
   "dict": [
    [
     {
      "str": "'other'"
     },
     {
      "dict": [
       [
        {
         "str": "'northing'"
        },
        {
         "tuple": [
          {
           "list": [
            {
             "str": "'corner'"
            }
           ]
          },
          {
           "list": [
            {
             "float": "7.5"
            },
            {
             "float": "7.5"
            },
            {
             "float": "6.5"
            },
            {
             "float": "6.5"
            }
           ]
          },
          {
           "dict": [
            [
             {
              "str": "'units'"
             },
             {
              "str": "'km'"
             }
            ]
           ]
          }
         ]
        }
       ],
       [
        {
         "str": "'easting'"
        },
        {
         "tuple": [
          {
           "list": [
            {
             "str": "'corner'"
            }
           ]
          },
          {
           "list": [
            {
             "float": "10.0"
            },
            {
             "float": "12.0"
            },
            {
             "float": "12.0"
            },
            {
             "float": "10.0"
            }
           ]
          },
          {
           "dict": [
            [
             {
              "str": "'units'"
             },
             {
              "str": "'km'"
             }
            ]
           ]
          }
         ]
        }
       ]
      ]
     }
    ]
   ]
  }
 },
 "transform_corner_points/empty": {
  "returns": {
   "dict": []
  }
 },
 "transform_corner_points/only_terrain": {
  "returns": {
   "dict": []
  }
 },
 "transform_corner_points/empty_corners": {
  "returns": {
   "dict": [
    [
     {
      "str": "'projected'"
     },
     {
      "dict": [
       [
        {
         "str": "'corner'"
        },
        {
         "tuple": [
          {
           "list": [
            {
             "str": "'corner'"
            }
           ]
          },
          {
           "list": [
            {
             "str": "'top_left'"
            },
            {
             "str": "'top_right'"
            },
            {
             "str": "'bottom_right'"
            },
            {
             "str": "'bottom_left'"
            }
           ]
          },
          {
           "dict": []
          }
         ]
        }
       ]
      ]
     }
    ]
   ]
  }
 },
 "transform_corner_points/three_tuples": {
  "raises": [
   "ValueError",
   "too many values to unpack (expected 2)"
  ]
 },
 "transform_corner_points/bad:missing_corner": {
  "raises": [
   "KeyError",
   "'bottom_right_corner'"
  ]
 },
 "transform_corner_points/bad:missing_first_corner": {
  "raises": [
   "KeyError",
   "'top_left_corner'"
  ]
 },
 "transform_corner_points/bad:no_corners": {
  "raises": [
   "KeyError",
   "'top_left_corner'"
  ]
 },
 "transform_corner_points/bad:section_none": {
  "raises": [
   "TypeError",
   "'NoneType' object is not subscriptable"
  ]
 },
 "transform_corner_points/bad:section_list": {
  "raises": [
   "TypeError",
   "list indices must be integers or slices, not str"
  ]
 },
 "transform_corner_points/bad:section_tuple": {
  "raises": [
   "TypeError",
   "tuple indices must be integers or slices, not str"
  ]
 },
 "transform_corner_points/bad:corner_not_mapping": {
  "raises": [
   "AttributeError",
   "'int' object has no attribute 'items'"
  ]
 },
 "transform_corner_points/bad:corner_none": {
  "raises": [
   "AttributeError",
   "'NoneType' object has no attribute 'items'"
  ]
 },
 "transform_corner_points/bad:entries_without_attrs": {
  "raises": [
   "TypeError",
   "'float' object is not iterable"
  ]
 },
 "transform_corner_points/bad:entries_1tuple": {
  "raises": [
   "ValueError",
   "not enough values to unpack (expected 2, got 1)"
  ]
 },
 "transform_corner_points/bad:entries_mixed": {
  "raises": [
   "ValueError",
   "not enough values to unpack (expected 2, got 1)"
  ]
 },
 "transform_corner_points/bad:entries_strings": {
  "returns": {
   "dict": [
    [
     {
      "str": "'projected'"
     },
     {
      "dict": [
       [
        {
         "str": "'corner'"
        },
        {
         "tuple": [
          {
           "list": [
            {
             "str": "'corner'"
            }
           ]
          },
          {
           "list": [
            {
             "str": "'top_left'"
            },
            {
             "str": "'top_right'"
            },
            {
             "str": "'bottom_right'"
            },
            {
             "str": "'bottom_left'"
            }
           ]
          },
          {
           "dict": []
          }
         ]
        }
       ],
       [
        {
         "str": "'northing'"
        },
        {
         "tuple": [
          {
           "list": [
            {
             "str": "'corner'"
            }
           ]
          },
          {
           "list": [
            {
             "str": "'a'"
            },
            {
             "str": "'a'"
            },
            {
             "str": "'a'"
            },
            {
             "str": "'a'"
            }
           ]
          },
          {
           "str": "'b'"
          }
         ]
        }
       ]
      ]
     }
    ]
   ]
  }
 },
 "transform_corner_points/bad:mapping_none": {
  "raises": [
   "AttributeError",
   "'NoneType' object has no attribute 'items'"
  ]
 },
 "transform_corner_points/bad:mapping_list": {
  "raises": [
   "AttributeError",
   "'list' object has no attribute 'items'"
  ]
 },
 "transform_conversion_coefficients/both": {
  "returns": {
   "dict": [
    [
     {
      "str": "'projected_to_image'"
     },
     {
      "tuple": [
       {
        "dict": [
         [
          {
           "str": "'names'"
          },
          {
           "tuple": [
            {
             "str": "'names'"
            },
            {
             "list": [
              {
               "str": "'A11'"
              },
              {
               "str": "'A12'"
              },
              {
               "str": "'A21'"
              },
              {
               "str": "'A22'"
              }
             ]
            },
            {
             "dict": []
            }
           ]
          }
         ],
         [
          {
           "str": "'coefficients'"
          },
          {
           "tuple": [
            {
             "str": "'names'"
            },
            {
             "list": [
              {
               "float": "1.0"
              },
              {
               "float": "2.5"
              },
              {
               "float": "nan"
              },
              {
               "float": "-0.001"
              }
             ]
            },
            {
             "dict": []
            }
           ]
          }
         ]
        ]
       },
       {
        "dict": [
         [
          {
           "str": "'formula'"
          },
          {
           "str": "'E = A11 + A12 * R'"
          }
         ],
         [
          {
           "str": "'E'"
          },
          {
           "str": "'easting'"
          }
         ]
        ]
       }
      ]
     }
    ],
    [
     {
      "str": "'image_to_projected'"
     },
     {
      "tuple": [
       {
        "dict": [
         [
          {
           "str": "'names'"
          },
          {
           "tuple": [
            {
             "str": "'names'"
            },
            {
             "list": [
              {
               "str": "'B11'"
              },
              {
               "str": "'B12'"
              }
             ]
            },
            {
             "dict": []
            }
           ]
          }
         ],
         [
          {
           "str": "'coefficients'"
          },
          {
           "tuple": [
            {
             "str": "'names'"
            },
            {
             "list": [
              {
               "float": "0.0"
              },
              {
               "float": "1.0"
              }
             ]
            },
            {
             "dict": []
            }
           ]
          }
         ]
        ]
       },
       {
        "dict": [
         [
          {
           "str": "'formula'"
          },
          {
           "str": "'R = B11'"
          }
         ]
        ]
       }
      ]
     }
    ]
   ]
  }
 },
 "transform_conversion_coefficients/reordered": {
  "returns": {
   "dict": [
    [
     {
      "str": "'image_to_projected'"
     },
     {
      "tuple": [
       {
        "dict": [
         [
          {
           "str": "'names'"
          },
          {
           "tuple": [
            {
             "str": "'names'"
            },
            {
             "list": [
              {
               "str": "'B11'"
              },
              {
               "str": "'B12'"
              }
             ]
            },
            {
             "dict": []
            }
           ]
          }
         ],
         [
          {
           "str": "'coefficients'"
          },
          {
           "tuple": [
            {
             "str": "'names'"
            },
            {
             "list": [
              {
               "float": "0.0"
              },
              {
               "float": "1.0"
              }
             ]
            },
            {
             "dict": []
            }
           ]
          }
         ]
        ]
       },
       {
        "dict": [
         [
          {
           "str": "'formula'"
          },
          {
           "str": "'R = B11'"
          }
         ]
        ]
       }
      ]
     }
    ],
    [
     {
      "str": "'projected_to_image'"
     },
     {
      "tuple": [
       {
        "dict": [
         [
          {
           "str": "'names'"
          },
          {
           "tuple": [
            {
             "str": "'names'"
            },
            {
             "list": [
              {
               "str": "'A11'"
              },
              {
               "str": "'A12'"
              },
              {
               "str": "'A21'"
              },
              {
               "str": "'A22'"
              }
             ]
            },
            {
             "dict": []
            }
           ]
          }
         ],
         [
          {
           "str": "'coefficients'"
          },
          {
           "tuple": [
            {
             "str": "'names'"
            },
            {
             "list": [
              {
               "float": "1.0"
              },
              {
               "float": "2.5"
              },
              {
               "float": "nan"
              },
              {
               "float": "-0.001"
              }
             ]
            },
            {
             "dict": []
            }
           ]
          }
         ]
        ]
       },
       {
        "dict": [
         [
          {
           "str": "'formula'"
          },
          {
           "str": "'E = A11 + A12 * R'"
          }
         ],
         [
          {
           "str": "'E'"
          },
          {
           "str": "'easting'"
          }
         ]
        ]
       }
      ]
     }
    ]
   ]
  }
 },
 "transform_conversion_coefficients/one": {
  "returns": {
   "dict": [
    [
     {
      "str": "'projected_to_image'"
     },
     {
      "tuple": [
       {
        "dict": [
         [
          {
           "str": "'names'"
          },
          {
           "tuple": [
            {
             "str": "'names'"
            },
            {
             "list": [
              {
               "str": "'A11'"
              },
              {
               "str": "'A12'"
              },
              {
               "str": "'A21'"
              },
              {
               "str": "'A22'"
              }
             ]
            },
            {
             "dict": []
            }
           ]
          }
         ],
         [
          {
           "str": "'coefficients'"
          },
          {
           "tuple": [
            {
             "str": "'names'"
            },
            {
             "list": [
              {
               "float": "1.0"
              },
              {
               "float": "2.5"
              },
              {
               "float": "nan"
              },
              {
               "float": "-0.001"
              }
             ]
            },
            {
             "dict": []
            }
           ]
          }
         ]
        ]
       },
       {
        "dict": [
         [
          {
           "str": "'formula'"
          },
          {
           "str": "'E = A11 + A12 * R'"
          }
         ],
         [
          {
           "str": "'E'"
          },
          {
           "str": "'easting'"
          }
         ]
        ]
       }
      ]
     }
    ]
   ]
  }
 },
 "transform_conversion_coefficients/unknown_name": {
  "returns": {
   "dict": [
    [
     {
      "str": "'something_else'"
     },
     {
      "tuple": [
       {
        "dict": [
         [
          {
           "str": "'names'"
          },
          {
           "tuple": [
            {
             "str": "'names'"
            },
            {
             "list": [
              {
               "str": "'A11'"
              },
              {
               "str": "'A12'"
              },
              {
               "str": "'A21'"
              },
              {
               "str": "'A22'"
              }
             ]
            },
            {
             "dict": []
            }
           ]
          }
         ],
         [
          {
           "str": "'coefficients'"
          },
          {
           "tuple": [
            {
             "str": "'names'"
            },
            {
             "list": [
              {
               "float": "1.0"
              },
              {
               "float": "2.5"
              },
              {
               "float": "nan"
              },
              {
               "float": "-0.001"
              }
             ]
            },
            {
             "dict": []
            }
           ]
          }
         ]
        ]
       },
       {
        "dict": [
         [
          {
           "str": "'formula'"
          },
          {
           "str": "'E = A11 + A12 * R'"
          }
         ],
         [
          {
           "str": "'E'"
          },
          {
           "str": "'easting'"
          }
         ]
        ]
       }
      ]
     }
    ],
    [
     {
      "str": "'projected_to_image'"
     },
     {
      "tuple": [
       {
        "dict": [
         [
          {
           "str": "'names'"
          },
          {
           "tuple": [
            {
             "str": "'names'"
            },
            {
             "list": [
              {
               "str": "'B11'"
              },
              {
               "str": "'B12'"
              }
             ]
            },
            {
             "dict": []
            }
           ]
          }
         ],
         [
          {
           "str": "'coefficients'"
          },
          {
           "tuple": [
            {
             "str": "'names'"
            },
            {
             "list": [
              {
               "float": "0.0"
              },
              {
               "float": "1.0"
              }
             ]
            },
            {
             "dict": []
            }
           ]
          }
         ]
        ]
       },
       {
        "dict": [
         [
          {
           "str": "'formula'"
          },
          {
           "str": "'R = B11'"
          }
         ]
        ]
       }
      ]
     }
    ]
   ]
  }
 },
 "transform_conversion_coefficients/name_clash": {
  "returns": {
   "dict": [
    [
     {
      "str": "'projected_to_image'"
     },
     {
      "tuple": [
       {
        "dict": [
         [
          {
           "str": "'names'"
          },
          {
           "tuple": [
            {
             "str": "'names'"
            },
            {
             "list": [
              {
               "str": "'B11'"
              },
              {
               "str": "'B12'"
              }
             ]
            },
            {
             "dict": []
            }
           ]
          }
         ],
         [
          {
           "str": "'coefficients'"
          },
          {
           "tuple": [
            {
             "str": "'names'"
            },
            {
             "list": [
              {
               "float": "0.0"
              },
              {
               "float": "1.0"
              }
             ]
            },
            {
             "dict": []
            }
           ]
          }
         ]
        ]
       },
       {
        "dict": [
         [
          {
           "str": "'formula'"
          },
          {
           "str": "'R = B11'"
          }
         ]
        ]
       }
      ]
     }
    ]
   ]
  }
 },
 "transform_conversion_coefficients/name_clash_reordered": {
  "returns": {
   "dict": [
    [
     {
      "str": "'projected_to_image'"
     },
     {
      "tuple": [
       {
        "dict": [
         [
          {
           "str": "'names'"
          },
          {
           "tuple": [
            {
             "str": "'names'"
            },
            {
             "list": [
              {
               "str": "'A11'"
              },
              {
               "str": "'A12'"
              },
              {
               "str": "'A21'"
              },
              {
               "str": "'A22'"
              }
             ]
            },
            {
             "dict": []
            }
           ]
          }
         ],
         [
          {
           "str": "'coefficients'"
          },
          {
           "tuple": [
            {
             "str": "'names'"
            },
            {
             "list": [
              {
               "float": "1.0"
              },
              {
               "float": "2.5"
              },
              {
               "float": "nan"
              },
              {
               "float": "-0.001"
              }
             ]
            },
            {
             "dict": []
            }
           ]
          }
         ]
        ]
       },
       {
        "dict": [
         [
          {
           "str": "'formula'"
          },
          {
           "str": "'E = A11 + A12 * R'"
          }
         ],
         [
          {
           "str": "'E'"
          },
          {
           "str": "'easting'"
          }
         ]
        ]
       }
      ]
     }
    ]
   ]
  }
 },
 "transform_conversion_coefficients/single_coefficient": {
  "returns": {
   "dict": [
    [
     {
      "str": "'a'"
     },
     {
      "tuple": [
       {
        "dict": [
         [
          {
           "str": "'names'"
          },
          {
           "tuple": [
            {
             "str": "'names'"
            },
            {
             "list": [
              {
               "str": "'c0'"
              }
             ]
            },
            {
             "dict": []
            }
           ]
          }
         ],
         [
          {
           "str": "'coefficients'"
          },
          {
           "tuple": [
            {
             "str": "'names'"
            },
            {
             "list": [
              {
               "int": "1"
              }
             ]
            },
            {
             "dict": []
            }
           ]
          }
         ]
        ]
       },
       {
        "dict": []
       }
      ]
     }
    ]
   ]
  }
 },
 "transform_conversion_coefficients/non_string_names": {
  "returns": {
   "dict": [
    [
     {
      "str": "'a'"
     },
     {
      "tuple": [
       {
        "dict": [
         [
          {
           "str": "'names'"
          },
          {
           "tuple": [
            {
             "str": "'names'"
            },
            {
             "list": [
              {
               "int": "1"
              },
              {
               "tuple": [
                {
                 "int": "3"
                },
                {
                 "int": "4"
                }
               ]
              }
             ]
            },
            {
             "dict": []
            }
           ]
          }
         ],
         [
          {
           "str": "'coefficients'"
          },
          {
           "tuple": [
            {
             "str": "'names'"
            },
            {
             "list": [
              {
               "int": "2"
              },
              {
               "int": "5"
              }
             ]
            },
            {
             "dict": []
            }
           ]
          }
         ]
        ]
       },
       {
        "dict": [
         [
          {
           "str": "'k'"
          },
          {
           "str": "'v'"
          }
         ]
        ]
       }
      ]
     }
    ]
   ]
  }
 },
 "transform_conversion_coefficients/attrs_not_mapping": {
  "returns": {
   "dict": [
    [
     {
      "str": "'a'"
     },
     {
      "tuple": [
       {
        "dict": [
         [
          {
           "str": "'names'"
          },
          {
           "tuple": [
            {
             "str": "'names'"
            },
            {
             "list": [
              {
               "str": "'c0'"
              }
             ]
            },
            {
             "dict": []
            }
           ]
          }
         ],
         [
          {
           "str": "'coefficients'"
          },
          {
           "tuple": [
            {
             "str": "'names'"
            },
            {
             "list": [
              {
               "int": "1"
              }
             ]
            },
            {
             "dict": []
            }
           ]
          }
         ]
        ]
       },
       {
        "NoneType": "None"
       }
      ]
     }
    ]
   ]
  }
 },
 "transform_conversion_coefficients/ordered": {
  "returns": {
   "dict": [
    [
     {
      "str": "'a'"
     },
     {
      "tuple": [
       {
        "dict": [
         [
          {
           "str": "'names'"
          },
          {
           "tuple": [
            {
             "str": "'names'"
            },
            {
             "list": [
              {
               "str": "'z'"
              },
              {
               "str": "'y'"
              }
             ]
            },
            {
             "dict": []
            }
           ]
          }
         ],
         [
          {
           "str": "'coefficients'"
          },
          {
           "tuple": [
            {
             "str": "'names'"
            },
            {
             "list": [
              {
               "int": "1"
              },
              {
               "int": "2"
              }
             ]
            },
            {
             "dict": []
            }
           ]
          }
         ]
        ]
       },
       {
        "dict": []
       }
      ]
     }
    ]
   ]
  }
 },
 "transform_conversion_coefficients/empty": {
  "returns": {
   "dict": []
  }
 },
 "transform_conversion_coefficients/bad:no_coefficients": {
  "raises": [
   "ValueError",
   "not enough values to unpack (expected 2, got 0)"
  ]
 },
 "transform_conversion_coefficients/bad:entry_not_tuple": {
  "raises": [
   "ValueError",
   "not enough values to unpack (expected 2, got 1)"
  ]
 },
 "transform_conversion_coefficients/bad:entry_1tuple": {
  "raises": [
   "ValueError",
   "not enough values to unpack (expected 2, got 1)"
  ]
 },
 "transform_conversion_coefficients/bad:entry_3tuple": {
  "raises": [
   "ValueError",
   "too many values to unpack (expected 2)"
  ]
 },
 "transform_conversion_coefficients/bad:entry_none": {
  "raises": [
   "TypeError",
   "cannot unpack non-iterable NoneType object"
  ]
 },
 "transform_conversion_coefficients/bad:entry_int": {
  "raises": [
   "TypeError",
   "cannot unpack non-iterable int object"
  ]
 },
 "transform_conversion_coefficients/bad:data_not_mapping": {
  "raises": [
   "AttributeError",
   "'list' object has no attribute 'items'"
  ]
 },
 "transform_conversion_coefficients/bad:data_none": {
  "raises": [
   "AttributeError",
   "'NoneType' object has no attribute 'items'"
  ]
 },
 "transform_conversion_coefficients/bad:mapping_none": {
  "raises": [
   "AttributeError",
   "'NoneType' object has no attribute 'keys'"
  ]
 },
 "transform_conversion_coefficients/bad:mapping_list": {
  "raises": [
   "AttributeError",
   "'list' object has no attribute 'keys'"
  ]
 },
 "transform_map_projection/utm": {
  "returns": {
   "Group": [
    "/",
    null,
    {
     "dict": [
      [
       {
        "str": "'general_information'"
       },
       {
        "Group": [
         "/general_information",
         null,
         {
          "dict": [
           [
            {
             "str": "'inter_line_distance_in_output_scene'"
            },
            {
             "Variable": [
              {
               "tuple": []
              },
              {
               "float": "2.5"
              },
              {
               "dict": [
                [
                 {
                  "str": "'units'"
                 },
                 {
                  "str": "'m'"
                 }
                ]
               ]
              }
             ]
            }
           ],
           [
            {
             "str": "'platform_headings'"
            },
            {
             "Variable": [
              {
               "tuple": []
              },
              {
               "float": "nan"
              },
              {
               "dict": [
                [
                 {
                  "str": "'units'"
                 },
                 {
                  "str": "'deg'"
                 }
                ]
               ]
              }
             ]
            }
           ]
          ]
         },
         {
          "dict": [
           [
            {
             "str": "'map_projection_type'"
            },
            {
             "str": "'GEOCODED'"
            }
           ],
           [
            {
             "str": "'n_columns'"
            },
            {
             "int": "2000"
            }
           ],
           [
            {
             "str": "'n_rows'"
            },
            {
             "int": "3000"
            }
           ]
          ]
         }
        ]
       }
      ],
      [
       {
        "str": "'ellipsoid_parameters'"
       },
       {
        "Group": [
         "/ellipsoid_parameters",
         null,
         {
          "dict": [
           [
            {
             "str": "'semimajor_axis'"
            },
            {
             "Variable": [
              {
               "tuple": []
              },
              {
               "float": "6378.137"
              },
              {
               "dict": [
                [
                 {
                  "str": "'units'"
                 },
                 {
                  "str": "'m'"
                 }
                ]
               ]
              }
             ]
            }
           ]
          ]
         },
         {
          "dict": [
           [
            {
             "str": "'reference_ellipsoid'"
            },
            {
             "str": "'GRS80'"
            }
           ]
          ]
         }
        ]
       }
      ],
      [
       {
        "str": "'projection'"
       },
       {
        "Group": [
         "/projection",
         null,
         {
          "dict": [
           [
            {
             "str": "'center_of_projection'"
            },
            {
             "Group": [
              "/projection/center_of_projection",
              null,
              {
               "dict": [
                [
                 {
                  "str": "'longitude'"
                 },
                 {
                  "Variable": [
                   {
                    "tuple": []
                   },
                   {
                    "float": "9.0"
                   },
                   {
                    "dict": [
                     [
                      {
                       "str": "'units'"
                      },
                      {
                       "str": "'deg'"
                      }
                     ]
                    ]
                   }
                  ]
                 }
                ]
               ]
              },
              {
               "dict": []
              }
             ]
            }
           ]
          ]
         },
         {
          "dict": [
           [
            {
             "str": "'type'"
            },
            {
             "str": "'UNIVERSAL TRANSVERSE MERCATOR'"
            }
           ],
           [
            {
             "str": "'zone_number'"
            },
            {
             "str": "'32'"
            }
           ],
           [
            {
             "str": "'scale_factor'"
            },
            {
             "float": "0.9996"
            }
           ]
          ]
         }
        ]
       }
      ],
      [
       {
        "str": "'corner_points'"
       },
       {
        "Group": [
         "/corner_points",
         null,
         {
          "dict": [
           [
            {
             "str": "'projected'"
            },
            {
             "Group": [
              "/corner_points/projected",
              null,
              {
               "dict": [
                [
                 {
                  "str": "'corner'"
                 },
                 {
                  "Variable": [
                   {
                    "list": [
                     {
                      "str": "'corner'"
                     }
                    ]
                   },
                   {
                    "list": [
                     {
                      "str": "'top_left'"
                     },
                     {
                      "str": "'top_right'"
                     },
                     {
                      "str": "'bottom_right'"
                     },
                     {
                      "str": "'bottom_left'"
                     }
                    ]
                   },
                   {
                    "dict": []
                   }
                  ]
                 }
                ],
                [
                 {
                  "str": "'northing'"
                 },
                 {
                  "Variable": [
                   {
                    "list": [
                     {
                      "str": "'corner'"
                     }
                    ]
                   },
                   {
                    "list": [
                     {
                      "float": "7.5"
                     },
                     {
                      "float": "7.5"
                     },
                     {
                      "float": "6.5"
                     },
                     {
                      "float": "6.5"
                     }
                    ]
                   },
                   {
                    "dict": [
                     [
                      {
                       "str": "'units'"
                      },
                      {
                       "str": "'km'"
                      }
                     ]
                    ]
                   }
                  ]
                 }
                ],
                [
                 {
                  "str": "'easting'"
                 },
                 {
                  "Variable": [
                   {
                    "list": [
                     {
                      "str": "'corner'"
                     }
                    ]
                   },
                   {
                    "list": [
                     {
                      "float": "10.0"
                     },
                     {
                      "float": "12.0"
                     },
                     {
                      "float": "12.0"
                     },
                     {
                      "float": "10.0"
                     }
                    ]
                   },
                   {
                    "dict": [
                     [
                      {
                       "str": "'units'"
                      },
                      {
                       "str": "'km'"
                      }
                     ]
                    ]
                   }
                  ]
                 }
                ]
               ]
              },
              {
               "dict": []
              }
             ]
            }
           ],
           [
            {
             "str": "'geographic'"
            },
            {
             "Group": [
              "/corner_points/geographic",
              null,
              {
               "dict": [
                [
                 {
                  "str": "'corner'"
                 },
                 {
                  "Variable": [
                   {
                    "list": [
                     {
                      "str": "'corner'"
                     }
                    ]
                   },
                   {
                    "list": [
                     {
                      "str": "'top_left'"
                     },
                     {
                      "str": "'top_right'"
                     },
                     {
                      "str": "'bottom_right'"
                     },
                     {
                      "str": "'bottom_left'"
                     }
                    ]
                   },
                   {
                    "dict": []
                   }
                  ]
                 }
                ],
                [
                 {
                  "str": "'latitude'"
                 },
                 {
                  "Variable": [
                   {
                    "list": [
                     {
                      "str": "'corner'"
                     }
                    ]
                   },
                   {
                    "list": [
                     {
                      "float": "61.5"
                     },
                     {
                      "float": "61.75"
                     },
                     {
                      "float": "60.5"
                     },
                     {
                      "float": "60.25"
                     }
                    ]
                   },
                   {
                    "dict": [
                     [
                      {
                       "str": "'units'"
                      },
                      {
                       "str": "'deg'"
                      }
                     ]
                    ]
                   }
                  ]
                 }
                ],
                [
                 {
                  "str": "'longitude'"
                 },
                 {
                  "Variable": [
                   {
                    "list": [
                     {
                      "str": "'corner'"
                     }
                    ]
                   },
                   {
                    "list": [
                     {
                      "float": "-10.0"
                     },
                     {
                      "float": "-9.0"
                     },
                     {
                      "float": "nan"
                     },
                     {
                      "float": "-10.5"
                     }
                    ]
                   },
                   {
                    "dict": [
                     [
                      {
                       "str": "'units'"
                      },
                      {
                       "str": "'deg'"
                      }
                     ]
                    ]
                   }
                  ]
                 }
                ]
               ]
              },
              {
               "dict": []
              }
             ]
            }
           ]
          ]
         },
         {
          "dict": []
         }
        ]
       }
      ],
      [
       {
        "str": "'conversion_coefficients'"
       },
       {
        "Group": [
         "/conversion_coefficients",
         null,
         {
          "dict": [
           [
            {
             "str": "'projected_to_image'"
            },
            {
             "Group": [
              "/conversion_coefficients/projected_to_image",
              null,
              {
               "dict": [
                [
                 {
                  "str": "'names'"
                 },
                 {
                  "Variable": [
                   {
                    "list": [
                     {
                      "str": "'names'"
                     }
                    ]
                   },
                   {
                    "list": [
                     {
                      "str": "'A11'"
                     },
                     {
                      "str": "'A12'"
                     },
                     {
                      "str": "'A13'"
                     },
                     {
                      "str": "'A14'"
                     }
                    ]
                   },
                   {
                    "dict": []
                   }
                  ]
                 }
                ],
                [
                 {
                  "str": "'coefficients'"
                 },
                 {
                  "Variable": [
                   {
                    "list": [
                     {
                      "str": "'names'"
                     }
                    ]
                   },
                   {
                    "list": [
                     {
                      "float": "1.0"
                     },
                     {
                      "float": "2.5"
                     },
                     {
                      "float": "0.0"
                     },
                     {
                      "float": "-1.0"
                     }
                    ]
                   },
                   {
                    "dict": []
                   }
                  ]
                 }
                ]
               ]
              },
              {
               "dict": [
                [
                 {
                  "str": "'formula'"
                 },
                 {
                  "str": "'E = ...'"
                 }
                ],
                [
                 {
                  "str": "'E'"
                 },
                 {
                  "str": "'e'"
                 }
                ]
               ]
              }
             ]
            }
           ],
           [
            {
             "str": "'image_to_projected'"
            },
            {
             "Group": [
              "/conversion_coefficients/image_to_projected",
              null,
              {
               "dict": [
                [
                 {
                  "str": "'names'"
                 },
                 {
                  "Variable": [
                   {
                    "list": [
                     {
                      "str": "'names'"
                     }
                    ]
                   },
                   {
                    "list": [
                     {
                      "str": "'B11'"
                     },
                     {
                      "str": "'B12'"
                     }
                    ]
                   },
                   {
                    "dict": []
                   }
                  ]
                 }
                ],
                [
                 {
                  "str": "'coefficients'"
                 },
                 {
                  "Variable": [
                   {
                    "list": [
                     {
                      "str": "'names'"
                     }
                    ]
                   },
                   {
                    "list": [
                     {
                      "float": "0.0"
                     },
                     {
                      "float": "1.0"
                     }
                    ]
                   },
                   {
                    "dict": []
                   }
                  ]
                 }
                ]
               ]
              },
              {
               "dict": [
                [
                 {
                  "str": "'formula'"
                 },
                 {
                  "str": "'R = ...'"
                 }
                ]
               ]
              }
             ]
            }
           ]
          ]
         },
         {
          "dict": []
         }
        ]
       }
      ]
     ]
    },
    {
     "dict": []
    }
   ]
  }
 },
 "transform_map_projection/ups": {
  "returns": {
   "Group": [
    "/",
    null,
    {
     "dict": [
      [
       {
        "str": "'general_information'"
       },
       {
        "Group": [
         "/general_information",
         null,
         {
          "dict": [
           [
            {
             "str": "'inter_line_distance_in_output_scene'"
            },
            {
             "Variable": [
              {
               "tuple": []
              },
              {
               "float": "2.5"
              },
              {
               "dict": [
                [
                 {
                  "str": "'units'"
                 },
                 {
                  "str": "'m'"
                 }
                ]
               ]
              }
             ]
            }
           ],
           [
            {
             "str": "'platform_headings'"
            },
            {
             "Variable": [
              {
               "tuple": []
              },
              {
               "float": "nan"
              },
              {
               "dict": [
                [
                 {
                  "str": "'units'"
                 },
                 {
                  "str": "'deg'"
                 }
                ]
               ]
              }
             ]
            }
           ]
          ]
         },
         {
          "dict": [
           [
            {
             "str": "'map_projection_type'"
            },
            {
             "str": "'GEOCODED'"
            }
           ],
           [
            {
             "str": "'n_columns'"
            },
            {
             "int": "2000"
            }
           ],
           [
            {
             "str": "'n_rows'"
            },
            {
             "int": "3000"
            }
           ]
          ]
         }
        ]
       }
      ],
      [
       {
        "str": "'ellipsoid_parameters'"
       },
       {
        "Group": [
         "/ellipsoid_parameters",
         null,
         {
          "dict": [
           [
            {
             "str": "'semimajor_axis'"
            },
            {
             "Variable": [
              {
               "tuple": []
              },
              {
               "float": "6378.137"
              },
              {
               "dict": [
                [
                 {
                  "str": "'units'"
                 },
                 {
                  "str": "'m'"
                 }
                ]
               ]
              }
             ]
            }
           ]
          ]
         },
         {
          "dict": [
           [
            {
             "str": "'reference_ellipsoid'"
            },
            {
             "str": "'GRS80'"
            }
           ]
          ]
         }
        ]
       }
      ],
      [
       {
        "str": "'projection'"
       },
       {
        "Group": [
         "/projection",
         null,
         {
          "dict": [
           [
            {
             "str": "'center_of_projection'"
            },
            {
             "Group": [
              "/projection/center_of_projection",
              null,
              {
               "dict": [
                [
                 {
                  "str": "'latitude'"
                 },
                 {
                  "Variable": [
                   {
                    "tuple": []
                   },
                   {
                    "float": "90.0"
                   },
                   {
                    "dict": [
                     [
                      {
                       "str": "'units'"
                      },
                      {
                       "str": "'deg'"
                      }
                     ]
                    ]
                   }
                  ]
                 }
                ]
               ]
              },
              {
               "dict": []
              }
             ]
            }
           ]
          ]
         },
         {
          "dict": [
           [
            {
             "str": "'type'"
            },
            {
             "str": "'UNIVERSAL POLAR STEREOGRAPHIC'"
            }
           ],
           [
            {
             "str": "'scale_factor'"
            },
            {
             "float": "0.994"
            }
           ]
          ]
         }
        ]
       }
      ],
      [
       {
        "str": "'corner_points'"
       },
       {
        "Group": [
         "/corner_points",
         null,
         {
          "dict": [
           [
            {
             "str": "'projected'"
            },
            {
             "Group": [
              "/corner_points/projected",
              null,
              {
               "dict": [
                [
                 {
                  "str": "'corner'"
                 },
                 {
                  "Variable": [
                   {
                    "list": [
                     {
                      "str": "'corner'"
                     }
                    ]
                   },
                   {
                    "list": [
                     {
                      "str": "'top_left'"
                     },
                     {
                      "str": "'top_right'"
                     },
                     {
                      "str": "'bottom_right'"
                     },
                     {
                      "str": "'bottom_left'"
                     }
                    ]
                   },
                   {
                    "dict": []
                   }
                  ]
                 }
                ],
                [
                 {
                  "str": "'northing'"
                 },
                 {
                  "Variable": [
                   {
                    "list": [
                     {
                      "str": "'corner'"
                     }
                    ]
                   },
                   {
                    "list": [
                     {
                      "float": "7.5"
                     },
                     {
                      "float": "7.5"
                     },
                     {
                      "float": "6.5"
                     },
                     {
                      "float": "6.5"
                     }
                    ]
                   },
                   {
                    "dict": [
                     [
                      {
                       "str": "'units'"
                      },
                      {
                       "str": "'km'"
                      }
                     ]
                    ]
                   }
                  ]
                 }
                ],
                [
                 {
                  "str": "'easting'"
                 },
                 {
                  "Variable": [
                   {
                    "list": [
                     {
                      "str": "'corner'"
                     }
                    ]
                   },
                   {
                    "list": [
                     {
                      "float": "10.0"
                     },
                     {
                      "float": "12.0"
                     },
                     {
                      "float": "12.0"
                     },
                     {
                      "float": "10.0"
                     }
                    ]
                   },
                   {
                    "dict": [
                     [
                      {
                       "str": "'units'"
                      },
                      {
                       "str": "'km'"
                      }
                     ]
                    ]
                   }
                  ]
                 }
                ]
               ]
              },
              {
               "dict": []
              }
             ]
            }
           ],
           [
            {
             "str": "'geographic'"
            },
            {
             "Group": [
              "/corner_points/geographic",
              null,
              {
               "dict": [
                [
                 {
                  "str": "'corner'"
                 },
                 {
                  "Variable": [
                   {
                    "list": [
                     {
                      "str": "'corner'"
                     }
                    ]
                   },
                   {
                    "list": [
                     {
                      "str": "'top_left'"
                     },
                     {
                      "str": "'top_right'"
                     },
                     {
                      "str": "'bottom_right'"
                     },
                     {
                      "str": "'bottom_left'"
                     }
                    ]
                   },
                   {
                    "dict": []
                   }
                  ]
                 }
                ],
                [
                 {
                  "str": "'latitude'"
                 },
                 {
                  "Variable": [
                   {
                    "list": [
                     {
                      "str": "'corner'"
                     }
                    ]
                   },
                   {
                    "list": [
                     {
                      "float": "61.5"
                     },
                     {
                      "float": "61.75"
                     },
                     {
                      "float": "60.5"
                     },
                     {
                      "float": "60.25"
                     }
                    ]
                   },
                   {
                    "dict": [
                     [
                      {
                       "str": "'units'"
                      },
                      {
                       "str": "'deg'"
                      }
                     ]
                    ]
                   }
                  ]
                 }
                ],
                [
                 {
                  "str": "'longitude'"
                 },
                 {
                  "Variable": [
                   {
                    "list": [
                     {
                      "str": "'corner'"
                     }
                    ]
                   },
                   {
                    "list": [
                     {
                      "float": "-10.0"
                     },
                     {
                      "float": "-9.0"
                     },
                     {
                      "float": "nan"
                     },
                     {
                      "float": "-10.5"
                     }
                    ]
                   },
                   {
                    "dict": [
                     [
                      {
                       "str": "'units'"
                      },
                      {
                       "str": "'deg'"
                      }
                     ]
                    ]
                   }
                  ]
                 }
                ]
               ]
              },
              {
               "dict": []
              }
             ]
            }
           ]
          ]
         },
         {
          "dict": []
         }
        ]
       }
      ],
      [
       {
        "str": "'conversion_coefficients'"
       },
       {
        "Group": [
         "/conversion_coefficients",
         null,
         {
          "dict": [
           [
            {
             "str": "'projected_to_image'"
            },
            {
             "Group": [
              "/conversion_coefficients/projected_to_image",
              null,
              {
               "dict": [
                [
                 {
                  "str": "'names'"
                 },
                 {
                  "Variable": [
                   {
                    "list": [
                     {
                      "str": "'names'"
                     }
                    ]
                   },
                   {
                    "list": [
                     {
                      "str": "'A11'"
                     },
                     {
                      "str": "'A12'"
                     },
                     {
                      "str": "'A13'"
                     },
                     {
                      "str": "'A14'"
                     }
                    ]
                   },
                   {
                    "dict": []
                   }
                  ]
                 }
                ],
                [
                 {
                  "str": "'coefficients'"
                 },
                 {
                  "Variable": [
                   {
                    "list": [
                     {
                      "str": "'names'"
                     }
                    ]
                   },
                   {
                    "list": [
                     {
                      "float": "1.0"
                     },
                     {
                      "float": "2.5"
                     },
                     {
                      "float": "0.0"
                     },
                     {
                      "float": "-1.0"
                     }
                    ]
                   },
                   {
                    "dict": []
                   }
                  ]
                 }
                ]
               ]
              },
              {
               "dict": [
                [
                 {
                  "str": "'formula'"
                 },
                 {
                  "str": "'E = ...'"
                 }
                ],
                [
                 {
                  "str": "'E'"
                 },
                 {
                  "str": "'e'"
                 }
                ]
               ]
              }
             ]
            }
           ],
           [
            {
             "str": "'image_to_projected'"
            },
            {
             "Group": [
              "/conversion_coefficients/image_to_projected",
              null,
              {
               "dict": [
                [
                 {
                  "str": "'names'"
                 },
                 {
                  "Variable": [
                   {
                    "list": [
                     {
                      "str": "'names'"
                     }
                    ]
                   },
                   {
                    "list": [
                     {
                      "str": "'B11'"
                     },
                     {
                      "str": "'B12'"
                     }
                    ]
                   },
                   {
                    "dict": []
                   }
                  ]
                 }
                ],
                [
                 {
                  "str": "'coefficients'"
                 },
                 {
                  "Variable": [
                   {
                    "list": [
                     {
                      "str": "'names'"
                     }
                    ]
                   },
                   {
                    "list": [
                     {
                      "float": "0.0"
                     },
                     {
                      "float": "1.0"
                     }
                    ]
                   },
                   {
                    "dict": []
                   }
                  ]
                 }
                ]
               ]
              },
              {
               "dict": [
                [
                 {
                  "str": "'formula'"
                 },
                 {
                  "str": "'R = ...'"
                 }
                ]
               ]
              }
             ]
            }
           ]
          ]
         },
         {
          "dict": []
         }
        ]
       }
      ]
     ]
    },
    {
     "dict": []
    }
   ]
  }
 },
 "transform_map_projection/lcc": {
  "returns": {
   "Group": [
    "/",
    null,
    {
     "dict": [
      [
       {
        "str": "'general_information'"
       },
       {
        "Group": [
         "/general_information",
         null,
         {
          "dict": [
           [
            {
             "str": "'inter_line_distance_in_output_scene'"
            },
            {
             "Variable": [
              {
               "tuple": []
              },
              {
               "float": "2.5"
              },
              {
               "dict": [
                [
                 {
                  "str": "'units'"
                 },
                 {
                  "str": "'m'"
                 }
                ]
               ]
              }
             ]
            }
           ],
           [
            {
             "str": "'platform_headings'"
            },
            {
             "Variable": [
              {
               "tuple": []
              },
              {
               "float": "nan"
              },
              {
               "dict": [
                [
                 {
                  "str": "'units'"
                 },
                 {
                  "str": "'deg'"
                 }
                ]
               ]
              }
             ]
            }
           ]
          ]
         },
         {
          "dict": [
           [
            {
             "str": "'map_projection_type'"
            },
            {
             "str": "'GEOCODED'"
            }
           ],
           [
            {
             "str": "'n_columns'"
            },
            {
             "int": "2000"
            }
           ],
           [
            {
             "str": "'n_rows'"
            },
            {
             "int": "3000"
            }
           ]
          ]
         }
        ]
       }
      ],
      [
       {
        "str": "'ellipsoid_parameters'"
       },
       {
        "Group": [
         "/ellipsoid_parameters",
         null,
         {
          "dict": [
           [
            {
             "str": "'semimajor_axis'"
            },
            {
             "Variable": [
              {
               "tuple": []
              },
              {
               "float": "6378.137"
              },
              {
               "dict": [
                [
                 {
                  "str": "'units'"
                 },
                 {
                  "str": "'m'"
                 }
                ]
               ]
              }
             ]
            }
           ]
          ]
         },
         {
          "dict": [
           [
            {
             "str": "'reference_ellipsoid'"
            },
            {
             "str": "'GRS80'"
            }
           ]
          ]
         }
        ]
       }
      ],
      [
       {
        "str": "'projection'"
       },
       {
        "Group": [
         "/projection",
         null,
         {
          "dict": [
           [
            {
             "str": "'standard_parallel'"
            },
            {
             "Group": [
              "/projection/standard_parallel",
              null,
              {
               "dict": [
                [
                 {
                  "str": "'phi1'"
                 },
                 {
                  "Variable": [
                   {
                    "tuple": []
                   },
                   {
                    "float": "30.0"
                   },
                   {
                    "dict": [
                     [
                      {
                       "str": "'units'"
                      },
                      {
                       "str": "'deg'"
                      }
                     ]
                    ]
                   }
                  ]
                 }
                ],
                [
                 {
                  "str": "'phi2'"
                 },
                 {
                  "Variable": [
                   {
                    "tuple": []
                   },
                   {
                    "float": "60.0"
                   },
                   {
                    "dict": [
                     [
                      {
                       "str": "'units'"
                      },
                      {
                       "str": "'deg'"
                      }
                     ]
                    ]
                   }
                  ]
                 }
                ]
               ]
              },
              {
               "dict": []
              }
             ]
            }
           ]
          ]
         },
         {
          "dict": [
           [
            {
             "str": "'projection_descriptor'"
            },
            {
             "str": "'LAMBERT-CONFORMAL CONIC'"
            }
           ]
          ]
         }
        ]
       }
      ],
      [
       {
        "str": "'corner_points'"
       },
       {
        "Group": [
         "/corner_points",
         null,
         {
          "dict": [
           [
            {
             "str": "'projected'"
            },
            {
             "Group": [
              "/corner_points/projected",
              null,
              {
               "dict": [
                [
                 {
                  "str": "'corner'"
                 },
                 {
                  "Variable": [
                   {
                    "list": [
                     {
                      "str": "'corner'"
                     }
                    ]
                   },
                   {
                    "list": [
                     {
                      "str": "'top_left'"
                     },
                     {
                      "str": "'top_right'"
                     },
                     {
                      "str": "'bottom_right'"
                     },
                     {
                      "str": "'bottom_left'"
                     }
                    ]
                   },
                   {
                    "dict": []
                   }
                  ]
                 }
                ],
                [
                 {
                  "str": "'northing'"
                 },
                 {
                  "Variable": [
                   {
                    "list": [
                     {
                      "str": "'corner'"
                     }
                    ]
                   },
                   {
                    "list": [
                     {
                      "float": "7.5"
                     },
                     {
                      "float": "7.5"
                     },
                     {
                      "float": "6.5"
                     },
                     {
                      "float": "6.5"
                     }
                    ]
                   },
                   {
                    "dict": [
                     [
                      {
                       "str": "'units'"
                      },
                      {
                       "str": "'km'"
                      }
                     ]
                    ]
                   }
                  ]
                 }
                ],
                [
                 {
                  "str": "'easting'"
                 },
                 {
                  "Variable": [
                   {
                    "list": [
                     {
                      "str": "'corner'"
                     }
                    ]
                   },
                   {
                    "list": [
                     {
                      "float": "10.0"
                     },
                     {
                      "float": "12.0"
                     },
                     {
                      "float": "12.0"
                     },
                     {
                      "float": "10.0"
                     }
                    ]
                   },
                   {
                    "dict": [
                     [
                      {
                       "str": "'units'"
                      },
                      {
                       "str": "'km'"
                      }
                     ]
                    ]
                   }
                  ]
                 }
                ]
               ]
              },
              {
               "dict": []
              }
             ]
            }
           ],
           [
            {
             "str": "'geographic'"
            },
            {
             "Group": [
              "/corner_points/geographic",
              null,
              {
               "dict": [
                [
                 {
                  "str": "'corner'"
                 },
                 {
                  "Variable": [
                   {
                    "list": [
                     {
                      "str": "'corner'"
                     }
                    ]
                   },
                   {
                    "list": [
                     {
                      "str": "'top_left'"
                     },
                     {
                      "str": "'top_right'"
                     },
                     {
                      "str": "'bottom_right'"
                     },
                     {
                      "str": "'bottom_left'"
                     }
                    ]
                   },
                   {
                    "dict": []
                   }
                  ]
                 }
                ],
                [
                 {
                  "str": "'latitude'"
                 },
                 {
                  "Variable": [
                   {
                    "list": [
                     {
                      "str": "'corner'"
                     }
                    ]
                   },
                   {
                    "list": [
                     {
                      "float": "61.5"
                     },
                     {
                      "float": "61.75"
                     },
                     {
                      "float": "60.5"
                     },
                     {
                      "float": "60.25"
                     }
                    ]
                   },
                   {
                    "dict": [
                     [
                      {
                       "str": "'units'"
                      },
                      {
                       "str": "'deg'"
                      }
                     ]
                    ]
                   }
                  ]
                 }
                ],
                [
                 {
                  "str": "'longitude'"
                 },
                 {
                  "Variable": [
                   {
                    "list": [
                     {
                      "str": "'corner'"
                     }
                    ]
                   },
                   {
                    "list": [
                     {
                      "float": "-10.0"
                     },
                     {
                      "float": "-9.0"
                     },
                     {
                      "float": "nan"
                     },
                     {
                      "float": "-10.5"
                     }
                    ]
                   },
                   {
                    "dict": [
                     [
                      {
                       "str": "'units'"
                      },
                      {
                       "str": "'deg'"
                      }
                     ]
                    ]
                   }
                  ]
                 }
                ]
               ]
              },
              {
               "dict": []
              }
             ]
            }
           ]
          ]
         },
         {
          "dict": []
         }
        ]
       }
      ],
      [
       {
        "str": "'conversion_coefficients'"
       },
       {
        "Group": [
         "/conversion_coefficients",
         null,
         {
          "dict": [
           [
            {
             "str": "'projected_to_image'"
            },
            {
             "Group": [
              "/conversion_coefficients/projected_to_image",
              null,
              {
               "dict": [
                [
                 {
                  "str": "'names'"
                 },
                 {
                  "Variable": [
                   {
                    "list": [
                     {
                      "str": "'names'"
                     }
                    ]
                   },
                   {
                    "list": [
                     {
                      "str": "'A11'"
                     },
                     {
                      "str": "'A12'"
                     },
                     {
                      "str": "'A13'"
                     },
                     {
                      "str": "'A14'"
                     }
                    ]
                   },
                   {
                    "dict": []
                   }
                  ]
                 }
                ],
                [
                 {
                  "str": "'coefficients'"
                 },
                 {
                  "Variable": [
                   {
                    "list": [
                     {
                      "str": "'names'"
                     }
                    ]
                   },
                   {
                    "list": [
                     {
                      "float": "1.0"
                     },
                     {
                      "float": "2.5"
                     },
                     {
                      "float": "0.0"
                     },
                     {
                      "float": "-1.0"
                     }
                    ]
                   },
                   {
                    "dict": []
                   }
                  ]
                 }
                ]
               ]
              },
              {
               "dict": [
                [
                 {
                  "str": "'formula'"
                 },
                 {
                  "str": "'E = ...'"
                 }
                ],
                [
                 {
                  "str": "'E'"
                 },
                 {
                  "str": "'e'"
                 }
                ]
               ]
              }
             ]
            }
           ],
           [
            {
             "str": "'image_to_projected'"
            },
            {
             "Group": [
              "/conversion_coefficients/image_to_projected",
              null,
              {
               "dict": [
                [
                 {
                  "str": "'names'"
                 },
                 {
                  "Variable": [
                   {
                    "list": [
                     {
                      "str": "'names'"
                     }
                    ]
                   },
                   {
                    "list": [
                     {
                      "str": "'B11'"
                     },
                     {
                      "str": "'B12'"
                     }
                    ]
                   },
                   {
                    "dict": []
                   }
                  ]
                 }
                ],
                [
                 {
                  "str": "'coefficients'"
                 },
                 {
                  "Variable": [
                   {
                    "list": [
                     {
                      "str": "'names'"
                     }
                    ]
                   },
                   {
                    "list": [
                     {
                      "float": "0.0"
                     },
                     {
                      "float": "1.0"
                     }
                    ]
                   },
                   {
                    "dict": []
                   }
                  ]
                 }
                ]
               ]
              },
              {
               "dict": [
                [
                 {
                  "str": "'formula'"
                 },
                 {
                  "str": "'R = ...'"
                 }
                ]
               ]
              }
             ]
            }
           ]
          ]
         },
         {
          "dict": []
         }
        ]
       }
      ]
     ]
    },
    {
     "dict": []
    }
   ]
  }
 },
 "transform_map_projection/mer": {
  "returns": {
   "Group": [
    "/",
    null,
    {
     "dict": [
      [
       {
        "str": "'general_information'"
       },
       {
        "Group": [
         "/general_information",
         null,
         {
          "dict": [
           [
            {
             "str": "'inter_line_distance_in_output_scene'"
            },
            {
             "Variable": [
              {
               "tuple": []
              },
              {
               "float": "2.5"
              },
              {
               "dict": [
                [
                 {
                  "str": "'units'"
                 },
                 {
                  "str": "'m'"
                 }
                ]
               ]
              }
             ]
            }
           ],
           [
            {
             "str": "'platform_headings'"
            },
            {
             "Variable": [
              {
               "tuple": []
              },
              {
               "float": "nan"
              },
              {
               "dict": [
                [
                 {
                  "str": "'units'"
                 },
                 {
                  "str": "'deg'"
                 }
                ]
               ]
              }
             ]
            }
           ]
          ]
         },
         {
          "dict": [
           [
            {
             "str": "'map_projection_type'"
            },
            {
             "str": "'GEOCODED'"
            }
           ],
           [
            {
             "str": "'n_columns'"
            },
            {
             "int": "2000"
            }
           ],
           [
            {
             "str": "'n_rows'"
            },
            {
             "int": "3000"
            }
           ]
          ]
         }
        ]
       }
      ],
      [
       {
        "str": "'ellipsoid_parameters'"
       },
       {
        "Group": [
         "/ellipsoid_parameters",
         null,
         {
          "dict": [
           [
            {
             "str": "'semimajor_axis'"
            },
            {
             "Variable": [
              {
               "tuple": []
              },
              {
               "float": "6378.137"
              },
              {
               "dict": [
                [
                 {
                  "str": "'units'"
                 },
                 {
                  "str": "'m'"
                 }
                ]
               ]
              }
             ]
            }
           ]
          ]
         },
         {
          "dict": [
           [
            {
             "str": "'reference_ellipsoid'"
            },
            {
             "str": "'GRS80'"
            }
           ]
          ]
         }
        ]
       }
      ],
      [
       {
        "str": "'projection'"
       },
       {
        "Group": [
         "/projection",
         null,
         {
          "dict": [
           [
            {
             "str": "'standard_parallel'"
            },
            {
             "Group": [
              "/projection/standard_parallel",
              null,
              {
               "dict": [
                [
                 {
                  "str": "'phi1'"
                 },
                 {
                  "Variable": [
                   {
                    "tuple": []
                   },
                   {
                    "float": "30.0"
                   },
                   {
                    "dict": [
                     [
                      {
                       "str": "'units'"
                      },
                      {
                       "str": "'deg'"
                      }
                     ]
                    ]
                   }
                  ]
                 }
                ],
                [
                 {
                  "str": "'phi2'"
                 },
                 {
                  "Variable": [
                   {
                    "tuple": []
                   },
                   {
                    "float": "60.0"
                   },
                   {
                    "dict": [
                     [
                      {
                       "str": "'units'"
                      },
                      {
                       "str": "'deg'"
                      }
                     ]
                    ]
                   }
                  ]
                 }
                ]
               ]
              },
              {
               "dict": []
              }
             ]
            }
           ]
          ]
         },
         {
          "dict": [
           [
            {
             "str": "'projection_descriptor'"
            },
            {
             "str": "'LAMBERT-CONFORMAL CONIC'"
            }
           ]
          ]
         }
        ]
       }
      ],
      [
       {
        "str": "'corner_points'"
       },
       {
        "Group": [
         "/corner_points",
         null,
         {
          "dict": [
           [
            {
             "str": "'projected'"
            },
            {
             "Group": [
              "/corner_points/projected",
              null,
              {
               "dict": [
                [
                 {
                  "str": "'corner'"
                 },
                 {
                  "Variable": [
                   {
                    "list": [
                     {
                      "str": "'corner'"
                     }
                    ]
                   },
                   {
                    "list": [
                     {
                      "str": "'top_left'"
                     },
                     {
                      "str": "'top_right'"
                     },
                     {
                      "str": "'bottom_right'"
                     },
                     {
                      "str": "'bottom_left'"
                     }
                    ]
                   },
                   {
                    "dict": []
                   }
                  ]
                 }
                ],
                [
                 {
                  "str": "'northing'"
                 },
                 {
                  "Variable": [
                   {
                    "list": [
                     {
                      "str": "'corner'"
                     }
                    ]
                   },
                   {
                    "list": [
                     {
                      "float": "7.5"
                     },
                     {
                      "float": "7.5"
                     },
                     {
                      "float": "6.5"
                     },
                     {
                      "float": "6.5"
                     }
                    ]
                   },
                   {
                    "dict": [
                     [
                      {
                       "str": "'units'"
                      },
                      {
                       "str": "'km'"
                      }
                     ]
                    ]
                   }
                  ]
                 }
                ],
                [
                 {
                  "str": "'easting'"
                 },
                 {
                  "Variable": [
                   {
                    "list": [
                     {
                      "str": "'corner'"
                     }
                    ]
                   },
                   {
                    "list": [
                     {
                      "float": "10.0"
                     },
                     {
                      "float": "12.0"
                     },
                     {
                      "float": "12.0"
                     },
                     {
                      "float": "10.0"
                     }
                    ]
                   },
                   {
                    "dict": [
                     [
                      {
                       "str": "'units'"
                      },
                      {
                       "str": "'km'"
                      }
                     ]
                    ]
                   }
                  ]
                 }
                ]
               ]
              },
              {
               "dict": []
              }
             ]
            }
           ],
           [
            {
             "str": "'geographic'"
            },
            {
             "Group": [
              "/corner_points/geographic",
              null,
              {
               "dict": [
                [
                 {
                  "str": "'corner'"
                 },
                 {
                  "Variable": [
                   {
                    "list": [
                     {
                      "str": "'corner'"
                     }
                    ]
                   },
                   {
                    "list": [
                     {
                      "str": "'top_left'"
                     },
                     {
                      "str": "'top_right'"
                     },
                     {
                      "str": "'bottom_right'"
                     },
                     {
                      "str": "'bottom_left'"
                     }
                    ]
                   },
                   {
                    "dict": []
                   }
                  ]
                 }
                ],
                [
                 {
                  "str": "'latitude'"
                 },
                 {
                  "Variable": [
                   {
                    "list": [
                     {
                      "str": "'corner'"
                     }
                    ]
                   },
                   {
                    "list": [
                     {
                      "float": "61.5"
                     },
                     {
                      "float": "61.75"
                     },
                     {
                      "float": "60.5"
                     },
                     {
                      "float": "60.25"
                     }
                    ]
                   },
                   {
                    "dict": [
                     [
                      {
                       "str": "'units'"
                      },
                      {
                       "str": "'deg'"
                      }
                     ]
                    ]
                   }
                  ]
                 }
                ],
                [
                 {
                  "str": "'longitude'"
                 },
                 {
                  "Variable": [
                   {
                    "list": [
                     {
                      "str": "'corner'"
                     }
                    ]
                   },
                   {
                    "list": [
                     {
                      "float": "-10.0"
                     },
                     {
                      "float": "-9.0"
                     },
                     {
                      "float": "nan"
                     },
                     {
                      "float": "-10.5"
                     }
                    ]
                   },
                   {
                    "dict": [
                     [
                      {
                       "str": "'units'"
                      },
                      {
                       "str": "'deg'"
                      }
                     ]
                    ]
                   }
                  ]
                 }
                ]
               ]
              },
              {
               "dict": []
              }
             ]
            }
           ]
          ]
         },
         {
          "dict": []
         }
        ]
       }
      ],
      [
       {
        "str": "'conversion_coefficients'"
       },
       {
        "Group": [
         "/conversion_coefficients",
         null,
         {
          "dict": [
           [
            {
             "str": "'projected_to_image'"
            },
            {
             "Group": [
              "/conversion_coefficients/projected_to_image",
              null,
              {
               "dict": [
                [
                 {
                  "str": "'names'"
                 },
                 {
                  "Variable": [
                   {
                    "list": [
                     {
                      "str": "'names'"
                     }
                    ]
                   },
                   {
                    "list": [
                     {
                      "str": "'A11'"
                     },
                     {
                      "str": "'A12'"
                     },
                     {
                      "str": "'A13'"
                     },
                     {
                      "str": "'A14'"
                     }
                    ]
                   },
                   {
                    "dict": []
                   }
                  ]
                 }
                ],
                [
                 {
                  "str": "'coefficients'"
                 },
                 {
                  "Variable": [
                   {
                    "list": [
                     {
                      "str": "'names'"
                     }
                    ]
                   },
                   {
                    "list": [
                     {
                      "float": "1.0"
                     },
                     {
                      "float": "2.5"
                     },
                     {
                      "float": "0.0"
                     },
                     {
                      "float": "-1.0"
                     }
                    ]
                   },
                   {
                    "dict": []
                   }
                  ]
                 }
                ]
               ]
              },
              {
               "dict": [
                [
                 {
                  "str": "'formula'"
                 },
                 {
                  "str": "'E = ...'"
                 }
                ],
                [
                 {
                  "str": "'E'"
                 },
                 {
                  "str": "'e'"
                 }
                ]
               ]
              }
             ]
            }
           ],
           [
            {
             "str": "'image_to_projected'"
            },
            {
             "Group": [
              "/conversion_coefficients/image_to_projected",
              null,
              {
               "dict": [
                [
                 {
                  "str": "'names'"
                 },
                 {
                  "Variable": [
                   {
                    "list": [
                     {
                      "str": "'names'"
                     }
                    ]
                   },
                   {
                    "list": [
                     {
                      "str": "'B11'"
                     },
                     {
                      "str": "'B12'"
                     }
                    ]
                   },
                   {
                    "dict": []
                   }
                  ]
                 }
                ],
                [
                 {
                  "str": "'coefficients'"
                 },
                 {
                  "Variable": [
                   {
                    "list": [
                     {
                      "str": "'names'"
                     }
                    ]
                   },
                   {
                    "list": [
                     {
                      "float": "0.0"
                     },
                     {
                      "float": "1.0"
                     }
                    ]
                   },
                   {
                    "dict": []
                   }
                  ]
                 }
                ]
               ]
              },
              {
               "dict": [
                [
                 {
                  "str": "'formula'"
                 },
                 {
                  "str": "'R = ...'"
                 }
                ]
               ]
              }
             ]
            }
           ]
          ]
         },
         {
          "dict": []
         }
        ]
       }
      ]
     ]
    },
    {
     "dict": []
    }
   ]
  }
 },
 "transform_map_projection/unknown_designator": {
  "returns": {
   "Group": [
    "/",
    null,
    {
     "dict": [
      [
       {
        "str": "'general_information'"
       },
       {
        "Group": [
         "/general_information",
         null,
         {
          "dict": [
           [
            {
             "str": "'inter_line_distance_in_output_scene'"
            },
            {
             "Variable": [
              {
               "tuple": []
              },
              {
               "float": "2.5"
              },
              {
               "dict": [
                [
                 {
                  "str": "'units'"
                 },
                 {
                  "str": "'m'"
                 }
                ]
               ]
              }
             ]
            }
           ],
           [
            {
             "str": "'platform_headings'"
            },
            {
             "Variable": [
              {
               "tuple": []
              },
              {
               "float": "nan"
              },
              {
               "dict": [
                [
                 {
                  "str": "'units'"
                 },
                 {
                  "str": "'deg'"
                 }
                ]
               ]
              }
             ]
            }
           ]
          ]
         },
         {
          "dict": [
           [
            {
             "str": "'map_projection_type'"
            },
            {
             "str": "'GEOCODED'"
            }
           ],
           [
            {
             "str": "'n_columns'"
            },
            {
             "int": "2000"
            }
           ],
           [
            {
             "str": "'n_rows'"
            },
            {
             "int": "3000"
            }
           ]
          ]
         }
        ]
       }
      ],
      [
       {
        "str": "'ellipsoid_parameters'"
       },
       {
        "Group": [
         "/ellipsoid_parameters",
         null,
         {
          "dict": [
           [
            {
             "str": "'semimajor_axis'"
            },
            {
             "Variable": [
              {
               "tuple": []
              },
              {
               "float": "6378.137"
              },
              {
               "dict": [
                [
                 {
                  "str": "'units'"
                 },
                 {
                  "str": "'m'"
                 }
                ]
               ]
              }
             ]
            }
           ]
          ]
         },
         {
          "dict": [
           [
            {
             "str": "'reference_ellipsoid'"
            },
            {
             "str": "'GRS80'"
            }
           ]
          ]
         }
        ]
       }
      ],
      [
       {
        "str": "'corner_points'"
       },
       {
        "Group": [
         "/corner_points",
         null,
         {
          "dict": [
           [
            {
             "str": "'projected'"
            },
            {
             "Group": [
              "/corner_points/projected",
              null,
              {
               "dict": [
                [
                 {
                  "str": "'corner'"
                 },
                 {
                  "Variable": [
                   {
                    "list": [
                     {
                      "str": "'corner'"
                     }
                    ]
                   },
                   {
                    "list": [
                     {
                      "str": "'top_left'"
                     },
                     {
                      "str": "'top_right'"
                     },
                     {
                      "str": "'bottom_right'"
                     },
                     {
                      "str": "'bottom_left'"
                     }
                    ]
                   },
                   {
                    "dict": []
                   }
                  ]
                 }
                ],
                [
                 {
                  "str": "'northing'"
                 },
                 {
                  "Variable": [
                   {
                    "list": [
                     {
                      "str": "'corner'"
                     }
                    ]
                   },
                   {
                    "list": [
                     {
                      "float": "7.5"
                     },
                     {
                      "float": "7.5"
                     },
                     {
                      "float": "6.5"
                     },
                     {
                      "float": "6.5"
                     }
                    ]
                   },
                   {
                    "dict": [
                     [
                      {
                       "str": "'units'"
                      },
                      {
                       "str": "'km'"
                      }
                     ]
                    ]
                   }
                  ]
                 }
                ],
                [
                 {
                  "str": "'easting'"
                 },
                 {
                  "Variable": [
                   {
                    "list": [
                     {
                      "str": "'corner'"
                     }
                    ]
                   },
                   {
                    "list": [
                     {
                      "float": "10.0"
                     },
                     {
                      "float": "12.0"
                     },
                     {
                      "float": "12.0"
                     },
                     {
                      "float": "10.0"
                     }
                    ]
                   },
                   {
                    "dict": [
                     [
                      {
                       "str": "'units'"
                      },
                      {
                       "str": "'km'"
                      }
                     ]
                    ]
                   }
                  ]
                 }
                ]
               ]
              },
              {
               "dict": []
              }
             ]
            }
           ],
           [
            {
             "str": "'geographic'"
            },
            {
             "Group": [
              "/corner_points/geographic",
              null,
              {
               "dict": [
                [
                 {
                  "str": "'corner'"
                 },
                 {
                  "Variable": [
                   {
                    "list": [
                     {
                      "str": "'corner'"
                     }
                    ]
                   },
                   {
                    "list": [
                     {
                      "str": "'top_left'"
                     },
                     {
                      "str": "'top_right'"
                     },
                     {
                      "str": "'bottom_right'"
                     },
                     {
                      "str": "'bottom_left'"
                     }
                    ]
                   },
                   {
                    "dict": []
                   }
                  ]
                 }
                ],
                [
                 {
                  "str": "'latitude'"
                 },
                 {
                  "Variable": [
                   {
                    "list": [
                     {
                      "str": "'corner'"
                     }
                    ]
                   },
                   {
                    "list": [
                     {
                      "float": "61.5"
                     },
                     {
                      "float": "61.75"
                     },
                     {
                      "float": "60.5"
                     },
                     {
                      "float": "60.25"
                     }
                    ]
                   },
                   {
                    "dict": [
                     [
                      {
                       "str": "'units'"
                      },
                      {
                       "str": "'deg'"
                      }
                     ]
                    ]
                   }
                  ]
                 }
                ],
                [
                 {
                  "str": "'longitude'"
                 },
                 {
                  "Variable": [
                   {
                    "list": [
                     {
                      "str": "'corner'"
                     }
                    ]
                   },
                   {
                    "list": [
                     {
                      "float": "-10.0"
                     },
                     {
                      "float": "-9.0"
                     },
                     {
                      "float": "nan"
                     },
                     {
                      "float": "-10.5"
                     }
                    ]
                   },
                   {
                    "dict": [
                     [
                      {
                       "str": "'units'"
                      },
                      {
                       "str": "'deg'"
                      }
                     ]
                    ]
                   }
                  ]
                 }
                ]
               ]
              },
              {
               "dict": []
              }
             ]
            }
           ]
          ]
         },
         {
          "dict": []
         }
        ]
       }
      ],
      [
       {
        "str": "'conversion_coefficients'"
       },
       {
        "Group": [
         "/conversion_coefficients",
         null,
         {
          "dict": [
           [
            {
             "str": "'projected_to_image'"
            },
            {
             "Group": [
              "/conversion_coefficients/projected_to_image",
              null,
              {
               "dict": [
                [
                 {
                  "str": "'names'"
                 },
                 {
                  "Variable": [
                   {
                    "list": [
                     {
                      "str": "'names'"
                     }
                    ]
                   },
                   {
                    "list": [
                     {
                      "str": "'A11'"
                     },
                     {
                      "str": "'A12'"
                     },
                     {
                      "str": "'A13'"
                     },
                     {
                      "str": "'A14'"
                     }
                    ]
                   },
                   {
                    "dict": []
                   }
                  ]
                 }
                ],
                [
                 {
                  "str": "'coefficients'"
                 },
                 {
                  "Variable": [
                   {
                    "list": [
                     {
                      "str": "'names'"
                     }
                    ]
                   },
                   {
                    "list": [
                     {
                      "float": "1.0"
                     },
                     {
                      "float": "2.5"
                     },
                     {
                      "float": "0.0"
                     },
                     {
                      "float": "-1.0"
                     }
                    ]
                   },
                   {
                    "dict": []
                   }
                  ]
                 }
                ]
               ]
              },
              {
               "dict": [
                [
                 {
                  "str": "'formula'"
                 },
                 {
                  "str": "'E = ...'"
                 }
                ],
                [
                 {
                  "str": "'E'"
                 },
                 {
                  "str": "'e'"
                 }
                ]
               ]
              }
             ]
            }
           ],
           [
            {
             "str": "'image_to_projected'"
            },
            {
             "Group": [
              "/conversion_coefficients/image_to_projected",
              null,
              {
               "dict": [
                [
                 {
                  "str": "'names'"
                 },
                 {
                  "Variable": [
                   {
                    "list": [
                     {
                      "str": "'names'"
                     }
                    ]
                   },
                   {
                    "list": [
                     {
                      "str": "'B11'"
                     },
                     {
                      "str": "'B12'"
                     }
                    ]
                   },
                   {
                    "dict": []
                   }
                  ]
                 }
                ],
                [
                 {
                  "str": "'coefficients'"
                 },
                 {
                  "Variable": [
                   {
                    "list": [
                     {
                      "str": "'names'"
                     }
                    ]
                   },
                   {
                    "list": [
                     {
                      "float": "0.0"
                     },
                     {
                      "float": "1.0"
                     }
                    ]
                   },
                   {
                    "dict": []
                   }
                  ]
                 }
                ]
               ]
              },
              {
               "dict": [
                [
                 {
                  "str": "'formula'"
                 },
                 {
                  "str": "'R = ...'"
                 }
                ]
               ]
              }
             ]
            }
           ]
          ]
         },
         {
          "dict": []
         }
        ]
       }
      ]
     ]
    },
    {
     "dict": []
    }
   ]
  }
 },
 "transform_map_projection/reordered": {
  "returns": {
   "Group": [
    "/",
    null,
    {
     "dict": [
      [
       {
        "str": "'conversion_coefficients'"
       },
       {
        "Group": [
         "/conversion_coefficients",
         null,
         {
          "dict": [
           [
            {
             "str": "'projected_to_image'"
            },
            {
             "Group": [
              "/conversion_coefficients/projected_to_image",
              null,
              {
               "dict": [
                [
                 {
                  "str": "'names'"
                 },
                 {
                  "Variable": [
                   {
                    "list": [
                     {
                      "str": "'names'"
                     }
                    ]
                   },
                   {
                    "list": [
                     {
                      "str": "'A11'"
                     },
                     {
                      "str": "'A12'"
                     },
                     {
                      "str": "'A13'"
                     },
                     {
                      "str": "'A14'"
                     }
                    ]
                   },
                   {
                    "dict": []
                   }
                  ]
                 }
                ],
                [
                 {
                  "str": "'coefficients'"
                 },
                 {
                  "Variable": [
                   {
                    "list": [
                     {
                      "str": "'names'"
                     }
                    ]
                   },
                   {
                    "list": [
                     {
                      "float": "1.0"
                     },
                     {
                      "float": "2.5"
                     },
                     {
                      "float": "0.0"
                     },
                     {
                      "float": "-1.0"
                     }
                    ]
                   },
                   {
                    "dict": []
                   }
                  ]
                 }
                ]
               ]
              },
              {
               "dict": [
                [
                 {
                  "str": "'formula'"
                 },
                 {
                  "str": "'E = ...'"
                 }
                ],
                [
                 {
                  "str": "'E'"
                 },
                 {
                  "str": "'e'"
                 }
                ]
               ]
              }
             ]
            }
           ],
           [
            {
             "str": "'image_to_projected'"
            },
            {
             "Group": [
              "/conversion_coefficients/image_to_projected",
              null,
              {
               "dict": [
                [
                 {
                  "str": "'names'"
                 },
                 {
                  "Variable": [
                   {
                    "list": [
                     {
                      "str": "'names'"
                     }
                    ]
                   },
                   {
                    "list": [
                     {
                      "str": "'B11'"
                     },
                     {
                      "str": "'B12'"
                     }
                    ]
                   },
                   {
                    "dict": []
                   }
                  ]
                 }
                ],
                [
                 {
                  "str": "'coefficients'"
                 },
                 {
                  "Variable": [
                   {
                    "list": [
                     {
                      "str": "'names'"
                     }
                    ]
                   },
                   {
                    "list": [
                     {
                      "float": "0.0"
                     },
                     {
                      "float": "1.0"
                     }
                    ]
                   },
                   {
                    "dict": []
                   }
                  ]
                 }
                ]
               ]
              },
              {
               "dict": [
                [
                 {
                  "str": "'formula'"
                 },
                 {
                  "str": "'R = ...'"
                 }
                ]
               ]
              }
             ]
            }
           ]
          ]
         },
         {
          "dict": []
         }
        ]
       }
      ],
      [
       {
        "str": "'corner_points'"
       },
       {
        "Group": [
         "/corner_points",
         null,
         {
          "dict": [
           [
            {
             "str": "'projected'"
            },
            {
             "Group": [
              "/corner_points/projected",
              null,
              {
               "dict": [
                [
                 {
                  "str": "'corner'"
                 },
                 {
                  "Variable": [
                   {
                    "list": [
                     {
                      "str": "'corner'"
                     }
                    ]
                   },
                   {
                    "list": [
                     {
                      "str": "'top_left'"
                     },
                     {
                      "str": "'top_right'"
                     },
                     {
                      "str": "'bottom_right'"
                     },
                     {
                      "str": "'bottom_left'"
                     }
                    ]
                   },
                   {
                    "dict": []
                   }
                  ]
                 }
                ],
                [
                 {
                  "str": "'northing'"
                 },
                 {
                  "Variable": [
                   {
                    "list": [
                     {
                      "str": "'corner'"
                     }
                    ]
                   },
                   {
                    "list": [
                     {
                      "float": "7.5"
                     },
                     {
                      "float": "7.5"
                     },
                     {
                      "float": "6.5"
                     },
                     {
                      "float": "6.5"
                     }
                    ]
                   },
                   {
                    "dict": [
                     [
                      {
                       "str": "'units'"
                      },
                      {
                       "str": "'km'"
                      }
                     ]
                    ]
                   }
                  ]
                 }
                ],
                [
                 {
                  "str": "'easting'"
                 },
                 {
                  "Variable": [
                   {
                    "list": [
                     {
                      "str": "'corner'"
                     }
                    ]
                   },
                   {
                    "list": [
                     {
                      "float": "10.0"
                     },
                     {
                      "float": "12.0"
                     },
                     {
                      "float": "12.0"
                     },
                     {
                      "float": "10.0"
                     }
                    ]
                   },
                   {
                    "dict": [
                     [
                      {
                       "str": "'units'"
                      },
                      {
                       "str": "'km'"
                      }
                     ]
                    ]
                   }
                  ]
                 }
                ]
               ]
              },
              {
               "dict": []
              }
             ]
            }
           ],
           [
            {
             "str": "'geographic'"
            },
            {
             "Group": [
              "/corner_points/geographic",
              null,
              {
               "dict": [
                [
                 {
                  "str": "'corner'"
                 },
                 {
                  "Variable": [
                   {
                    "list": [
                     {
                      "str": "'corner'"
                     }
                    ]
                   },
                   {
                    "list": [
                     {
                      "str": "'top_left'"
                     },
                     {
                      "str": "'top_right'"
                     },
                     {
                      "str": "'bottom_right'"
                     },
                     {
                      "str": "'bottom_left'"
                     }
                    ]
                   },
                   {
                    "dict": []
                   }
                  ]
                 }
                ],
                [
                 {
                  "str": "'latitude'"
                 },
                 {
                  "Variable": [
                   {
                    "list": [
                     {
                      "str": "'corner'"
                     }
                    ]
                   },
                   {
                    "list": [
                     {
                      "float": "61.5"
                     },
                     {
                      "float": "61.75"
                     },
                     {
                      "float": "60.5"
                     },
                     {
                      "float": "60.25"
                     }
                    ]
                   },
                   {
                    "dict": [
                     [
                      {
                       "str": "'units'"
                      },
                      {
                       "str": "'deg'"
                      }
                     ]
                    ]
                   }
                  ]
                 }
                ],
                [
                 {
                  "str": "'longitude'"
                 },
                 {
                  "Variable": [
                   {
                    "list": [
                     {
                      "str": "'corner'"
                     }
                    ]
                   },
                   {
                    "list": [
                     {
                      "float": "-10.0"
                     },
                     {
                      "float": "-9.0"
                     },
                     {
                      "float": "nan"
                     },
                     {
                      "float": "-10.5"
                     }
                    ]
                   },
                   {
                    "dict": [
                     [
                      {
                       "str": "'units'"
                      },
                      {
                       "str": "'deg'"
                      }
                     ]
                    ]
                   }
                  ]
                 }
                ]
               ]
              },
              {
               "dict": []
              }
             ]
            }
           ]
          ]
         },
         {
          "dict": []
         }
        ]
       }
      ],
      [
       {
        "str": "'projection'"
       },
       {
        "Group": [
         "/projection",
         null,
         {
          "dict": [
           [
            {
             "str": "'standard_parallel'"
            },
            {
             "Group": [
              "/projection/standard_parallel",
              null,
              {
               "dict": [
                [
                 {
                  "str": "'phi1'"
                 },
                 {
                  "Variable": [
                   {
                    "tuple": []
                   },
                   {
                    "float": "30.0"
                   },
                   {
                    "dict": [
                     [
                      {
                       "str": "'units'"
                      },
                      {
                       "str": "'deg'"
                      }
                     ]
                    ]
                   }
                  ]
                 }
                ],
                [
                 {
                  "str": "'phi2'"
                 },
                 {
                  "Variable": [
                   {
                    "tuple": []
                   },
                   {
                    "float": "60.0"
                   },
                   {
                    "dict": [
                     [
                      {
                       "str": "'units'"
                      },
                      {
                       "str": "'deg'"
                      }
                     ]
                    ]
                   }
                  ]
                 }
                ]
               ]
              },
              {
               "dict": []
              }
             ]
            }
           ]
          ]
         },
         {
          "dict": [
           [
            {
             "str": "'projection_descriptor'"
            },
            {
             "str": "'LAMBERT-CONFORMAL CONIC'"
            }
           ]
          ]
         }
        ]
       }
      ],
      [
       {
        "str": "'ellipsoid_parameters'"
       },
       {
        "Group": [
         "/ellipsoid_parameters",
         null,
         {
          "dict": [
           [
            {
             "str": "'semimajor_axis'"
            },
            {
             "Variable": [
              {
               "tuple": []
              },
              {
               "float": "6378.137"
              },
              {
               "dict": [
                [
                 {
                  "str": "'units'"
                 },
                 {
                  "str": "'m'"
                 }
                ]
               ]
              }
             ]
            }
           ]
          ]
         },
         {
          "dict": [
           [
            {
             "str": "'reference_ellipsoid'"
            },
            {
             "str": "'GRS80'"
            }
           ]
          ]
         }
        ]
       }
      ],
      [
       {
        "str": "'general_information'"
       },
       {
        "Group": [
         "/general_information",
         null,
         {
          "dict": [
           [
            {
             "str": "'inter_line_distance_in_output_scene'"
            },
            {
             "Variable": [
              {
               "tuple": []
              },
              {
               "float": "2.5"
              },
              {
               "dict": [
                [
                 {
                  "str": "'units'"
                 },
                 {
                  "str": "'m'"
                 }
                ]
               ]
              }
             ]
            }
           ],
           [
            {
             "str": "'platform_headings'"
            },
            {
             "Variable": [
              {
               "tuple": []
              },
              {
               "float": "nan"
              },
              {
               "dict": [
                [
                 {
                  "str": "'units'"
                 },
                 {
                  "str": "'deg'"
                 }
                ]
               ]
              }
             ]
            }
           ]
          ]
         },
         {
          "dict": [
           [
            {
             "str": "'map_projection_type'"
            },
            {
             "str": "'GEOCODED'"
            }
           ],
           [
            {
             "str": "'n_columns'"
            },
            {
             "int": "2000"
            }
           ],
           [
            {
             "str": "'n_rows'"
            },
            {
             "int": "3000"
            }
           ]
          ]
         }
        ]
       }
      ]
     ]
    },
    {
     "dict": []
    }
   ]
  }
 },
 "transform_map_projection/no_designator": {
  "returns": {
   "Group": [
    "/",
    null,
    {
     "dict": [
      [
       {
        "str": "'general_information'"
       },
       {
        "Group": [
         "/general_information",
         null,
         {
          "dict": [
           [
            {
             "str": "'inter_line_distance_in_output_scene'"
            },
            {
             "Variable": [
              {
               "tuple": []
              },
              {
               "float": "2.5"
              },
              {
               "dict": [
                [
                 {
                  "str": "'units'"
                 },
                 {
                  "str": "'m'"
                 }
                ]
               ]
              }
             ]
            }
           ],
           [
            {
             "str": "'platform_headings'"
            },
            {
             "Variable": [
              {
               "tuple": []
              },
              {
               "float": "nan"
              },
              {
               "dict": [
                [
                 {
                  "str": "'units'"
                 },
                 {
                  "str": "'deg'"
                 }
                ]
               ]
              }
             ]
            }
           ]
          ]
         },
         {
          "dict": [
           [
            {
             "str": "'map_projection_type'"
            },
            {
             "str": "'GEOCODED'"
            }
           ],
           [
            {
             "str": "'n_columns'"
            },
            {
             "int": "2000"
            }
           ],
           [
            {
             "str": "'n_rows'"
            },
            {
             "int": "3000"
            }
           ]
          ]
         }
        ]
       }
      ],
      [
       {
        "str": "'ellipsoid_parameters'"
       },
       {
        "Group": [
         "/ellipsoid_parameters",
         null,
         {
          "dict": [
           [
            {
             "str": "'semimajor_axis'"
            },
            {
             "Variable": [
              {
               "tuple": []
              },
              {
               "float": "6378.137"
              },
              {
               "dict": [
                [
                 {
                  "str": "'units'"
                 },
                 {
                  "str": "'m'"
                 }
                ]
               ]
              }
             ]
            }
           ]
          ]
         },
         {
          "dict": [
           [
            {
             "str": "'reference_ellipsoid'"
            },
            {
             "str": "'GRS80'"
            }
           ]
          ]
         }
        ]
       }
      ],
      [
       {
        "str": "'utm_projection'"
       },
       {
        "Group": [
         "/utm_projection",
         null,
         {
          "dict": [
           [
            {
             "str": "'map_origin'"
            },
            {
             "Group": [
              "/utm_projection/map_origin",
              null,
              {
               "dict": [
                [
                 {
                  "str": "'false_easting'"
                 },
                 {
                  "Variable": [
                   {
                    "tuple": []
                   },
                   {
                    "float": "500000.0"
                   },
                   {
                    "dict": [
                     [
                      {
                       "str": "'units'"
                      },
                      {
                       "str": "'m'"
                      }
                     ]
                    ]
                   }
                  ]
                 }
                ]
               ]
              },
              {
               "dict": []
              }
             ]
            }
           ],
           [
            {
             "str": "'center_of_projection'"
            },
            {
             "Group": [
              "/utm_projection/center_of_projection",
              null,
              {
               "dict": [
                [
                 {
                  "str": "'longitude'"
                 },
                 {
                  "Variable": [
                   {
                    "tuple": []
                   },
                   {
                    "float": "9.0"
                   },
                   {
                    "dict": [
                     [
                      {
                       "str": "'units'"
                      },
                      {
                       "str": "'deg'"
                      }
                     ]
                    ]
                   }
                  ]
                 }
                ]
               ]
              },
              {
               "dict": []
              }
             ]
            }
           ]
          ]
         },
         {
          "dict": [
           [
            {
             "str": "'type'"
            },
            {
             "str": "'UNIVERSAL TRANSVERSE MERCATOR'"
            }
           ],
           [
            {
             "str": "'zone_number'"
            },
            {
             "str": "'32'"
            }
           ],
           [
            {
             "str": "'scale_factor'"
            },
            {
             "float": "0.9996"
            }
           ]
          ]
         }
        ]
       }
      ],
      [
       {
        "str": "'ups_projection'"
       },
       {
        "Group": [
         "/ups_projection",
         null,
         {
          "dict": [
           [
            {
             "str": "'center_of_projection'"
            },
            {
             "Group": [
              "/ups_projection/center_of_projection",
              null,
              {
               "dict": [
                [
                 {
                  "str": "'latitude'"
                 },
                 {
                  "Variable": [
                   {
                    "tuple": []
                   },
                   {
                    "float": "90.0"
                   },
                   {
                    "dict": [
                     [
                      {
                       "str": "'units'"
                      },
                      {
                       "str": "'deg'"
                      }
                     ]
                    ]
                   }
                  ]
                 }
                ]
               ]
              },
              {
               "dict": []
              }
             ]
            }
           ]
          ]
         },
         {
          "dict": [
           [
            {
             "str": "'type'"
            },
            {
             "str": "'UNIVERSAL POLAR STEREOGRAPHIC'"
            }
           ],
           [
            {
             "str": "'scale_factor'"
            },
            {
             "float": "0.994"
            }
           ]
          ]
         }
        ]
       }
      ],
      [
       {
        "str": "'national_system_projection'"
       },
       {
        "Group": [
         "/national_system_projection",
         null,
         {
          "dict": [
           [
            {
             "str": "'map_origin'"
            },
            {
             "Group": [
              "/national_system_projection/map_origin",
              null,
              {
               "dict": [
                [
                 {
                  "str": "'false_easting'"
                 },
                 {
                  "Variable": [
                   {
                    "tuple": []
                   },
                   {
                    "float": "0.0"
                   },
                   {
                    "dict": [
                     [
                      {
                       "str": "'units'"
                      },
                      {
                       "str": "'m'"
                      }
                     ]
                    ]
                   }
                  ]
                 }
                ]
               ]
              },
              {
               "dict": []
              }
             ]
            }
           ],
           [
            {
             "str": "'standard_parallel'"
            },
            {
             "Group": [
              "/national_system_projection/standard_parallel",
              null,
              {
               "dict": [
                [
                 {
                  "str": "'phi1'"
                 },
                 {
                  "Variable": [
                   {
                    "tuple": []
                   },
                   {
                    "float": "30.0"
                   },
                   {
                    "dict": [
                     [
                      {
                       "str": "'units'"
                      },
                      {
                       "str": "'deg'"
                      }
                     ]
                    ]
                   }
                  ]
                 }
                ],
                [
                 {
                  "str": "'phi2'"
                 },
                 {
                  "Variable": [
                   {
                    "tuple": []
                   },
                   {
                    "float": "60.0"
                   },
                   {
                    "dict": [
                     [
                      {
                       "str": "'units'"
                      },
                      {
                       "str": "'deg'"
                      }
                     ]
                    ]
                   }
                  ]
                 }
                ]
               ]
              },
              {
               "dict": []
              }
             ]
            }
           ],
           [
            {
             "str": "'standard_parallel2'"
            },
            {
             "Group": [
              "/national_system_projection/standard_parallel2",
              null,
              {
               "dict": [
                [
                 {
                  "str": "'param1'"
                 },
                 {
                  "Variable": [
                   {
                    "tuple": []
                   },
                   {
                    "float": "0.0"
                   },
                   {
                    "dict": [
                     [
                      {
                       "str": "'units'"
                      },
                      {
                       "str": "'deg'"
                      }
                     ]
                    ]
                   }
                  ]
                 }
                ]
               ]
              },
              {
               "dict": []
              }
             ]
            }
           ],
           [
            {
             "str": "'central_meridian'"
            },
            {
             "Group": [
              "/national_system_projection/central_meridian",
              null,
              {
               "dict": [
                [
                 {
                  "str": "'param1'"
                 },
                 {
                  "Variable": [
                   {
                    "tuple": []
                   },
                   {
                    "float": "0.0"
                   },
                   {
                    "dict": [
                     [
                      {
                       "str": "'units'"
                      },
                      {
                       "str": "'deg'"
                      }
                     ]
                    ]
                   }
                  ]
                 }
                ]
               ]
              },
              {
               "dict": []
              }
             ]
            }
           ]
          ]
         },
         {
          "dict": [
           [
            {
             "str": "'projection_descriptor'"
            },
            {
             "str": "'LAMBERT-CONFORMAL CONIC'"
            }
           ]
          ]
         }
        ]
       }
      ],
      [
       {
        "str": "'corner_points'"
       },
       {
        "Group": [
         "/corner_points",
         null,
         {
          "dict": [
           [
            {
             "str": "'projected'"
            },
            {
             "Group": [
              "/corner_points/projected",
              null,
              {
               "dict": [
                [
                 {
                  "str": "'corner'"
                 },
                 {
                  "Variable": [
                   {
                    "list": [
                     {
                      "str": "'corner'"
                     }
                    ]
                   },
                   {
                    "list": [
                     {
                      "str": "'top_left'"
                     },
                     {
                      "str": "'top_right'"
                     },
                     {
                      "str": "'bottom_right'"
                     },
                     {
                      "str": "'bottom_left'"
                     }
                    ]
                   },
                   {
                    "dict": []
                   }
                  ]
                 }
                ],
                [
                 {
                  "str": "'northing'"
                 },
                 {
                  "Variable": [
                   {
                    "list": [
                     {
                      "str": "'corner'"
                     }
                    ]
                   },
                   {
                    "list": [
                     {
                      "float": "7.5"
                     },
                     {
                      "float": "7.5"
                     },
                     {
                      "float": "6.5"
                     },
                     {
                      "float": "6.5"
                     }
                    ]
                   },
                   {
                    "dict": [
                     [
                      {
                       "str": "'units'"
                      },
                      {
                       "str": "'km'"
                      }
                     ]
                    ]
                   }
                  ]
                 }
                ],
                [
                 {
                  "str": "'easting'"
                 },
                 {
                  "Variable": [
                   {
                    "list": [
                     {
                      "str": "'corner'"
                     }
                    ]
                   },
                   {
                    "list": [
                     {
                      "float": "10.0"
                     },
                     {
                      "float": "12.0"
                     },
                     {
                      "float": "12.0"
                     },
                     {
                      "float": "10.0"
                     }
                    ]
                   },
                   {
                    "dict": [
                     [
                      {
                       "str": "'units'"
                      },
                      {
                       "str": "'km'"
                      }
                     ]
                    ]
                   }
                  ]
                 }
                ]
               ]
              },
              {
               "dict": []
              }
             ]
            }
           ],
           [
            {
             "str": "'geographic'"
            },
            {
             "Group": [
              "/corner_points/geographic",
              null,
              {
               "dict": [
                [
                 {
                  "str": "'corner'"
                 },
                 {
                  "Variable": [
                   {
                    "list": [
                     {
                      "str": "'corner'"
                     }
                    ]
                   },
                   {
                    "list": [
                     {
                      "str": "'top_left'"
                     },
                     {
                      "str": "'top_right'"
                     },
                     {
                      "str": "'bottom_right'"
                     },
                     {
                      "str": "'bottom_left'"
                     }
                    ]
                   },
                   {
                    "dict": []
                   }
                  ]
                 }
                ],
                [
                 {
                  "str": "'latitude'"
                 },
                 {
                  "Variable": [
                   {
                    "list": [
                     {
                      "str": "'corner'"
                     }
                    ]
                   },
                   {
                    "list": [
                     {
                      "float": "61.5"
                     },
                     {
                      "float": "61.75"
                     },
                     {
                      "float": "60.5"
                     },
                     {
                      "float": "60.25"
                     }
                    ]
                   },
                   {
                    "dict": [
                     [
                      {
                       "str": "'units'"
                      },
                      {
                       "str": "'deg'"
                      }
                     ]
                    ]
                   }
                  ]
                 }
                ],
                [
                 {
                  "str": "'longitude'"
                 },
                 {
                  "Variable": [
                   {
                    "list": [
                     {
                      "str": "'corner'"
                     }
                    ]
                   },
                   {
                    "list": [
                     {
                      "float": "-10.0"
                     },
                     {
                      "float": "-9.0"
                     },
                     {
                      "float": "nan"
                     },
                     {
                      "float": "-10.5"
                     }
                    ]
                   },
                   {
                    "dict": [
                     [
                      {
                       "str": "'units'"
                      },
                      {
                       "str": "'deg'"
                      }
                     ]
                    ]
                   }
                  ]
                 }
                ]
               ]
              },
              {
               "dict": []
              }
             ]
            }
           ]
          ]
         },
         {
          "dict": []
         }
        ]
       }
      ],
      [
       {
        "str": "'conversion_coefficients'"
       },
       {
        "Group": [
         "/conversion_coefficients",
         null,
         {
          "dict": [
           [
            {
             "str": "'projected_to_image'"
            },
            {
             "Group": [
              "/conversion_coefficients/projected_to_image",
              null,
              {
               "dict": [
                [
                 {
                  "str": "'names'"
                 },
                 {
                  "Variable": [
                   {
                    "list": [
                     {
                      "str": "'names'"
                     }
                    ]
                   },
                   {
                    "list": [
                     {
                      "str": "'A11'"
                     },
                     {
                      "str": "'A12'"
                     },
                     {
                      "str": "'A13'"
                     },
                     {
                      "str": "'A14'"
                     }
                    ]
                   },
                   {
                    "dict": []
                   }
                  ]
                 }
                ],
                [
                 {
                  "str": "'coefficients'"
                 },
                 {
                  "Variable": [
                   {
                    "list": [
                     {
                      "str": "'names'"
                     }
                    ]
                   },
                   {
                    "list": [
                     {
                      "float": "1.0"
                     },
                     {
                      "float": "2.5"
                     },
                     {
                      "float": "0.0"
                     },
                     {
                      "float": "-1.0"
                     }
                    ]
                   },
                   {
                    "dict": []
                   }
                  ]
                 }
                ]
               ]
              },
              {
               "dict": [
                [
                 {
                  "str": "'formula'"
                 },
                 {
                  "str": "'E = ...'"
                 }
                ],
                [
                 {
                  "str": "'E'"
                 },
                 {
                  "str": "'e'"
                 }
                ]
               ]
              }
             ]
            }
           ],
           [
            {
             "str": "'image_to_projected'"
            },
            {
             "Group": [
              "/conversion_coefficients/image_to_projected",
              null,
              {
               "dict": [
                [
                 {
                  "str": "'names'"
                 },
                 {
                  "Variable": [
                   {
                    "list": [
                     {
                      "str": "'names'"
                     }
                    ]
                   },
                   {
                    "list": [
                     {
                      "str": "'B11'"
                     },
                     {
                      "str": "'B12'"
                     }
                    ]
                   },
                   {
                    "dict": []
                   }
                  ]
                 }
                ],
                [
                 {
                  "str": "'coefficients'"
                 },
                 {
                  "Variable": [
                   {
                    "list": [
                     {
                      "str": "'names'"
                     }
                    ]
                   },
                   {
                    "list": [
                     {
                      "float": "0.0"
                     },
                     {
                      "float": "1.0"
                     }
                    ]
                   },
                   {
                    "dict": []
                   }
                  ]
                 }
                ]
               ]
              },
              {
               "dict": [
                [
                 {
                  "str": "'formula'"
                 },
                 {
                  "str": "'R = ...'"
                 }
                ]
               ]
              }
             ]
            }
           ]
          ]
         },
         {
          "dict": []
         }
        ]
       }
      ]
     ]
    },
    {
     "dict": []
    }
   ]
  }
 },
 "transform_map_projection/minimal": {
  "returns": {
   "Group": [
    "/",
    null,
    {
     "dict": [
      [
       {
        "str": "'projection'"
       },
       {
        "Group": [
         "/projection",
         null,
         {
          "dict": []
         },
         {
          "dict": [
           [
            {
             "str": "'type'"
            },
            {
             "str": "'UPS'"
            }
           ]
          ]
         }
        ]
       }
      ]
     ]
    },
    {
     "dict": []
    }
   ]
  }
 },
 "transform_map_projection/empty": {
  "returns": {
   "Group": [
    "/",
    null,
    {
     "dict": []
    },
    {
     "dict": []
    }
   ]
  }
 },
 "transform_map_projection/bad:blank_designator": {
  "raises": [
   "ValueError",
   "not enough values to unpack (expected 2, got 1)"
  ]
 },
 "transform_map_projection/bad:corner_points_none": {
  "raises": [
   "AttributeError",
   "'NoneType' object has no attribute 'items'"
  ]
 },
 "transform_map_projection/bad:coefficients_none": {
  "raises": [
   "AttributeError",
   "'NoneType' object has no attribute 'keys'"
  ]
 },
 "transform_map_projection/bad:both": {
  "raises": [
   "ValueError",
   "not enough values to unpack (expected 2, got 1)"
  ]
 },
 "transform_map_projection/bad:mapping_none": {
  "raises": [
   "AttributeError",
   "'NoneType' object has no attribute 'items'"
  ]
 },
 "parsed/utm": {
  "returns": {
   "Group": [
    "/",
    null,
    {
     "dict": [
      [
       {
        "str": "'general_information'"
       },
       {
        "Group": [
         "/general_information",
         null,
         {
          "dict": [
           [
            {
             "str": "'inter_line_distance_in_output_scene'"
            },
            {
             "Variable": [
              {
               "tuple": []
              },
              {
               "float": "-13.75"
              },
              {
               "dict": [
                [
                 {
                  "str": "'units'"
                 },
                 {
                  "str": "'m'"
                 }
                ]
               ]
              }
             ]
            }
           ],
           [
            {
             "str": "'inter_pixel_distance_in_output_scene'"
            },
            {
             "Variable": [
              {
               "tuple": []
              },
              {
               "float": "15.0"
              },
              {
               "dict": [
                [
                 {
                  "str": "'units'"
                 },
                 {
                  "str": "'m'"
                 }
                ]
               ]
              }
             ]
            }
           ],
           [
            {
             "str": "'angle_between_projection_aixs_from_true_north_at_processed_scene_center'"
            },
            {
             "Variable": [
              {
               "tuple": []
              },
              {
               "float": "-16.25"
              },
              {
               "dict": [
                [
                 {
                  "str": "'units'"
                 },
                 {
                  "str": "'deg'"
                 }
                ]
               ]
              }
             ]
            }
           ],
           [
            {
             "str": "'actual_platform_orbital_inclination'"
            },
            {
             "Variable": [
              {
               "tuple": []
              },
              {
               "float": "17.5"
              },
              {
               "dict": [
                [
                 {
                  "str": "'units'"
                 },
                 {
                  "str": "'deg'"
                 }
                ]
               ]
              }
             ]
            }
           ],
           [
            {
             "str": "'actual_ascending_node'"
            },
            {
             "Variable": [
              {
               "tuple": []
              },
              {
               "float": "-18.75"
              },
              {
               "dict": [
                [
                 {
                  "str": "'units'"
                 },
                 {
                  "str": "'deg'"
                 }
                ]
               ]
              }
             ]
            }
           ],
           [
            {
             "str": "'distance_of_platform_at_input_scene_center_from_geocenter'"
            },
            {
             "Variable": [
              {
               "tuple": []
              },
              {
               "float": "20.0"
              },
              {
               "dict": [
                [
                 {
                  "str": "'units'"
                 },
                 {
                  "str": "'m'"
                 }
                ]
               ]
              }
             ]
            }
           ],
           [
            {
             "str": "'geodetic_altitude_of_the_platform_relative_to_the_ellipsoid'"
            },
            {
             "Variable": [
              {
               "tuple": []
              },
              {
               "float": "-21.25"
              },
              {
               "dict": [
                [
                 {
                  "str": "'units'"
                 },
                 {
                  "str": "'m'"
                 }
                ]
               ]
              }
             ]
            }
           ],
           [
            {
             "str": "'actual_ground_speed_at_nadir_at_input_scene_center_time'"
            },
            {
             "Variable": [
              {
               "tuple": []
              },
              {
               "float": "22.5"
              },
              {
               "dict": [
                [
                 {
                  "str": "'units'"
                 },
                 {
                  "str": "'m/s'"
                 }
                ]
               ]
              }
             ]
            }
           ],
           [
            {
             "str": "'platform_headings'"
            },
            {
             "Variable": [
              {
               "tuple": []
              },
              {
               "float": "-23.75"
              },
              {
               "dict": [
                [
                 {
                  "str": "'units'"
                 },
                 {
                  "str": "'deg'"
                 }
                ]
               ]
              }
             ]
            }
           ]
          ]
         },
         {
          "dict": [
           [
            {
             "str": "'map_projection_type'"
            },
            {
             "str": "'text 8'"
            }
           ],
           [
            {
             "str": "'n_columns'"
            },
            {
             "int": "63"
            }
           ],
           [
            {
             "str": "'n_rows'"
            },
            {
             "int": "70"
            }
           ]
          ]
         }
        ]
       }
      ],
      [
       {
        "str": "'ellipsoid_parameters'"
       },
       {
        "Group": [
         "/ellipsoid_parameters",
         null,
         {
          "dict": [
           [
            {
             "str": "'semimajor_axis'"
            },
            {
             "Variable": [
              {
               "tuple": []
              },
              {
               "float": "-26.25"
              },
              {
               "dict": [
                [
                 {
                  "str": "'units'"
                 },
                 {
                  "str": "'m'"
                 }
                ]
               ]
              }
             ]
            }
           ],
           [
            {
             "str": "'semiminor_axis'"
            },
            {
             "Variable": [
              {
               "tuple": []
              },
              {
               "float": "27.5"
              },
              {
               "dict": [
                [
                 {
                  "str": "'units'"
                 },
                 {
                  "str": "'m'"
                 }
                ]
               ]
              }
             ]
            }
           ]
          ]
         },
         {
          "dict": [
           [
            {
             "str": "'reference_ellipsoid'"
            },
            {
             "str": "'text 20'"
            }
           ]
          ]
         }
        ]
       }
      ],
      [
       {
        "str": "'projection'"
       },
       {
        "Group": [
         "/projection",
         null,
         {
          "dict": [
           [
            {
             "str": "'center_of_projection'"
            },
            {
             "Group": [
              "/projection/center_of_projection",
              null,
              {
               "dict": [
                [
                 {
                  "str": "'longitude'"
                 },
                 {
                  "Variable": [
                   {
                    "tuple": []
                   },
                   {
                    "float": "42.5"
                   },
                   {
                    "dict": [
                     [
                      {
                       "str": "'units'"
                      },
                      {
                       "str": "'deg'"
                      }
                     ]
                    ]
                   }
                  ]
                 }
                ],
                [
                 {
                  "str": "'latitude'"
                 },
                 {
                  "Variable": [
                   {
                    "tuple": []
                   },
                   {
                    "float": "-43.75"
                   },
                   {
                    "dict": [
                     [
                      {
                       "str": "'units'"
                      },
                      {
                       "str": "'deg'"
                      }
                     ]
                    ]
                   }
                  ]
                 }
                ]
               ]
              },
              {
               "dict": []
              }
             ]
            }
           ]
          ]
         },
         {
          "dict": [
           [
            {
             "str": "'type'"
            },
            {
             "str": "'text 30'"
            }
           ],
           [
            {
             "str": "'zone_number'"
            },
            {
             "str": "'text'"
            }
           ],
           [
            {
             "str": "'scale_factor'"
            },
            {
             "float": "47.5"
            }
           ]
          ]
         }
        ]
       }
      ],
      [
       {
        "str": "'corner_points'"
       },
       {
        "Group": [
         "/corner_points",
         null,
         {
          "dict": [
           [
            {
             "str": "'projected'"
            },
            {
             "Group": [
              "/corner_points/projected",
              null,
              {
               "dict": [
                [
                 {
                  "str": "'corner'"
                 },
                 {
                  "Variable": [
                   {
                    "list": [
                     {
                      "str": "'corner'"
                     }
                    ]
                   },
                   {
                    "list": [
                     {
                      "str": "'top_left'"
                     },
                     {
                      "str": "'top_right'"
                     },
                     {
                      "str": "'bottom_right'"
                     },
                     {
                      "str": "'bottom_left'"
                     }
                    ]
                   },
                   {
                    "dict": []
                   }
                  ]
                 }
                ],
                [
                 {
                  "str": "'northing'"
                 },
                 {
                  "Variable": [
                   {
                    "list": [
                     {
                      "str": "'corner'"
                     }
                    ]
                   },
                   {
                    "list": [
                     {
                      "float": "70.0"
                     },
                     {
                      "float": "72.5"
                     },
                     {
                      "float": "75.0"
                     },
                     {
                      "float": "77.5"
                     }
                    ]
                   },
                   {
                    "dict": [
                     [
                      {
                       "str": "'units'"
                      },
                      {
                       "str": "'km'"
                      }
                     ]
                    ]
                   }
                  ]
                 }
                ],
                [
                 {
                  "str": "'easting'"
                 },
                 {
                  "Variable": [
                   {
                    "list": [
                     {
                      "str": "'corner'"
                     }
                    ]
                   },
                   {
                    "list": [
                     {
                      "float": "-71.25"
                     },
                     {
                      "float": "-73.75"
                     },
                     {
                      "float": "-76.25"
                     },
                     {
                      "float": "-78.75"
                     }
                    ]
                   },
                   {
                    "dict": [
                     [
                      {
                       "str": "'units'"
                      },
                      {
                       "str": "'km'"
                      }
                     ]
                    ]
                   }
                  ]
                 }
                ]
               ]
              },
              {
               "dict": []
              }
             ]
            }
           ],
           [
            {
             "str": "'geographic'"
            },
            {
             "Group": [
              "/corner_points/geographic",
              null,
              {
               "dict": [
                [
                 {
                  "str": "'corner'"
                 },
                 {
                  "Variable": [
                   {
                    "list": [
                     {
                      "str": "'corner'"
                     }
                    ]
                   },
                   {
                    "list": [
                     {
                      "str": "'top_left'"
                     },
                     {
                      "str": "'top_right'"
                     },
                     {
                      "str": "'bottom_right'"
                     },
                     {
                      "str": "'bottom_left'"
                     }
                    ]
                   },
                   {
                    "dict": []
                   }
                  ]
                 }
                ],
                [
                 {
                  "str": "'latitude'"
                 },
                 {
                  "Variable": [
                   {
                    "list": [
                     {
                      "str": "'corner'"
                     }
                    ]
                   },
                   {
                    "list": [
                     {
                      "float": "80.0"
                     },
                     {
                      "float": "82.5"
                     },
                     {
                      "float": "85.0"
                     },
                     {
                      "float": "87.5"
                     }
                    ]
                   },
                   {
                    "dict": [
                     [
                      {
                       "str": "'units'"
                      },
                      {
                       "str": "'deg'"
                      }
                     ]
                    ]
                   }
                  ]
                 }
                ],
                [
                 {
                  "str": "'longitude'"
                 },
                 {
                  "Variable": [
                   {
                    "list": [
                     {
                      "str": "'corner'"
                     }
                    ]
                   },
                   {
                    "list": [
                     {
                      "float": "-81.25"
                     },
                     {
                      "float": "-83.75"
                     },
                     {
                      "float": "-86.25"
                     },
                     {
                      "float": "-88.75"
                     }
                    ]
                   },
                   {
                    "dict": [
                     [
                      {
                       "str": "'units'"
                      },
                      {
                       "str": "'deg'"
                      }
                     ]
                    ]
                   }
                  ]
                 }
                ]
               ]
              },
              {
               "dict": []
              }
             ]
            }
           ]
          ]
         },
         {
          "dict": []
         }
        ]
       }
      ],
      [
       {
        "str": "'conversion_coefficients'"
       },
       {
        "Group": [
         "/conversion_coefficients",
         null,
         {
          "dict": [
           [
            {
             "str": "'projected_to_image'"
            },
            {
             "Group": [
              "/conversion_coefficients/projected_to_image",
              null,
              {
               "dict": [
                [
                 {
                  "str": "'names'"
                 },
                 {
                  "Variable": [
                   {
                    "list": [
                     {
                      "str": "'names'"
                     }
                    ]
                   },
                   {
                    "list": [
                     {
                      "str": "'A11'"
                     },
                     {
                      "str": "'A12'"
                     },
                     {
                      "str": "'A13'"
                     },
                     {
                      "str": "'A14'"
                     },
                     {
                      "str": "'A21'"
                     },
                     {
                      "str": "'A22'"
                     },
                     {
                      "str": "'A23'"
                     },
                     {
                      "str": "'A24'"
                     }
                    ]
                   },
                   {
                    "dict": []
                   }
                  ]
                 }
                ],
                [
                 {
                  "str": "'coefficients'"
                 },
                 {
                  "Variable": [
                   {
                    "list": [
                     {
                      "str": "'names'"
                     }
                    ]
                   },
                   {
                    "list": [
                     {
                      "float": "95.0"
                     },
                     {
                      "float": "-96.25"
                     },
                     {
                      "float": "97.5"
                     },
                     {
                      "float": "-98.75"
                     },
                     {
                      "float": "100.0"
                     },
                     {
                      "float": "-101.25"
                     },
                     {
                      "float": "102.5"
                     },
                     {
                      "float": "-103.75"
                     }
                    ]
                   },
                   {
                    "dict": []
                   }
                  ]
                 }
                ]
               ]
              },
              {
               "dict": [
                [
                 {
                  "str": "'formula'"
                 },
                 {
                  "str": "'E = A11 + A12 * R + A13 * C + A14 * R * C; N = A21 + A22 * R + A23 * C + A24 * R * C'"
                 }
                ],
                [
                 {
                  "str": "'E'"
                 },
                 {
                  "str": "'easting'"
                 }
                ],
                [
                 {
                  "str": "'N'"
                 },
                 {
                  "str": "'northing'"
                 }
                ],
                [
                 {
                  "str": "'R'"
                 },
                 {
                  "str": "'row (1-based)'"
                 }
                ],
                [
                 {
                  "str": "'C'"
                 },
                 {
                  "str": "'column (1-based)'"
                 }
                ]
               ]
              }
             ]
            }
           ],
           [
            {
             "str": "'image_to_projected'"
            },
            {
             "Group": [
              "/conversion_coefficients/image_to_projected",
              null,
              {
               "dict": [
                [
                 {
                  "str": "'names'"
                 },
                 {
                  "Variable": [
                   {
                    "list": [
                     {
                      "str": "'names'"
                     }
                    ]
                   },
                   {
                    "list": [
                     {
                      "str": "'B11'"
                     },
                     {
                      "str": "'B12'"
                     },
                     {
                      "str": "'B13'"
                     },
                     {
                      "str": "'B14'"
                     },
                     {
                      "str": "'B21'"
                     },
                     {
                      "str": "'B22'"
                     },
                     {
                      "str": "'B23'"
                     },
                     {
                      "str": "'B24'"
                     }
                    ]
                   },
                   {
                    "dict": []
                   }
                  ]
                 }
                ],
                [
                 {
                  "str": "'coefficients'"
                 },
                 {
                  "Variable": [
                   {
                    "list": [
                     {
                      "str": "'names'"
                     }
                    ]
                   },
                   {
                    "list": [
                     {
                      "float": "105.0"
                     },
                     {
                      "float": "-106.25"
                     },
                     {
                      "float": "107.5"
                     },
                     {
                      "float": "-108.75"
                     },
                     {
                      "float": "110.0"
                     },
                     {
                      "float": "-111.25"
                     },
                     {
                      "float": "112.5"
                     },
                     {
                      "float": "-113.75"
                     }
                    ]
                   },
                   {
                    "dict": []
                   }
                  ]
                 }
                ]
               ]
              },
              {
               "dict": [
                [
                 {
                  "str": "'formula'"
                 },
                 {
                  "str": "'R = B11 + B12 * E + B13 * N + B14 * E * N; C = B21 + B22 * E + B23 * N + B24 * E * N'"
                 }
                ],
                [
                 {
                  "str": "'E'"
                 },
                 {
                  "str": "'easting'"
                 }
                ],
                [
                 {
                  "str": "'N'"
                 },
                 {
                  "str": "'northing'"
                 }
                ],
                [
                 {
                  "str": "'R'"
                 },
                 {
                  "str": "'row (1-based)'"
                 }
                ],
                [
                 {
                  "str": "'C'"
                 },
                 {
                  "str": "'column (1-based)'"
                 }
                ]
               ]
              }
             ]
            }
           ]
          ]
         },
         {
          "dict": []
         }
        ]
       }
      ]
     ]
    },
    {
     "dict": []
    }
   ]
  }
 },
 "parsed/ups": {
  "returns": {
   "Group": [
    "/",
    null,
    {
     "dict": [
      [
       {
        "str": "'general_information'"
       },
       {
        "Group": [
         "/general_information",
         null,
         {
          "dict": [
           [
            {
             "str": "'inter_line_distance_in_output_scene'"
            },
            {
             "Variable": [
              {
               "tuple": []
              },
              {
               "float": "-13.75"
              },
              {
               "dict": [
                [
                 {
                  "str": "'units'"
                 },
                 {
                  "str": "'m'"
                 }
                ]
               ]
              }
             ]
            }
           ],
           [
            {
             "str": "'inter_pixel_distance_in_output_scene'"
            },
            {
             "Variable": [
              {
               "tuple": []
              },
              {
               "float": "15.0"
              },
              {
               "dict": [
                [
                 {
                  "str": "'units'"
                 },
                 {
                  "str": "'m'"
                 }
                ]
               ]
              }
             ]
            }
           ],
           [
            {
             "str": "'angle_between_projection_aixs_from_true_north_at_processed_scene_center'"
            },
            {
             "Variable": [
              {
               "tuple": []
              },
              {
               "float": "-16.25"
              },
              {
               "dict": [
                [
                 {
                  "str": "'units'"
                 },
                 {
                  "str": "'deg'"
                 }
                ]
               ]
              }
             ]
            }
           ],
           [
            {
             "str": "'actual_platform_orbital_inclination'"
            },
            {
             "Variable": [
              {
               "tuple": []
              },
              {
               "float": "17.5"
              },
              {
               "dict": [
                [
                 {
                  "str": "'units'"
                 },
                 {
                  "str": "'deg'"
                 }
                ]
               ]
              }
             ]
            }
           ],
           [
            {
             "str": "'actual_ascending_node'"
            },
            {
             "Variable": [
              {
               "tuple": []
              },
              {
               "float": "-18.75"
              },
              {
               "dict": [
                [
                 {
                  "str": "'units'"
                 },
                 {
                  "str": "'deg'"
                 }
                ]
               ]
              }
             ]
            }
           ],
           [
            {
             "str": "'distance_of_platform_at_input_scene_center_from_geocenter'"
            },
            {
             "Variable": [
              {
               "tuple": []
              },
              {
               "float": "20.0"
              },
              {
               "dict": [
                [
                 {
                  "str": "'units'"
                 },
                 {
                  "str": "'m'"
                 }
                ]
               ]
              }
             ]
            }
           ],
           [
            {
             "str": "'geodetic_altitude_of_the_platform_relative_to_the_ellipsoid'"
            },
            {
             "Variable": [
              {
               "tuple": []
              },
              {
               "float": "-21.25"
              },
              {
               "dict": [
                [
                 {
                  "str": "'units'"
                 },
                 {
                  "str": "'m'"
                 }
                ]
               ]
              }
             ]
            }
           ],
           [
            {
             "str": "'actual_ground_speed_at_nadir_at_input_scene_center_time'"
            },
            {
             "Variable": [
              {
               "tuple": []
              },
              {
               "float": "22.5"
              },
              {
               "dict": [
                [
                 {
                  "str": "'units'"
                 },
                 {
                  "str": "'m/s'"
                 }
                ]
               ]
              }
             ]
            }
           ],
           [
            {
             "str": "'platform_headings'"
            },
            {
             "Variable": [
              {
               "tuple": []
              },
              {
               "float": "-23.75"
              },
              {
               "dict": [
                [
                 {
                  "str": "'units'"
                 },
                 {
                  "str": "'deg'"
                 }
                ]
               ]
              }
             ]
            }
           ]
          ]
         },
         {
          "dict": [
           [
            {
             "str": "'map_projection_type'"
            },
            {
             "str": "'text 8'"
            }
           ],
           [
            {
             "str": "'n_columns'"
            },
            {
             "int": "63"
            }
           ],
           [
            {
             "str": "'n_rows'"
            },
            {
             "int": "70"
            }
           ]
          ]
         }
        ]
       }
      ],
      [
       {
        "str": "'ellipsoid_parameters'"
       },
       {
        "Group": [
         "/ellipsoid_parameters",
         null,
         {
          "dict": [
           [
            {
             "str": "'semimajor_axis'"
            },
            {
             "Variable": [
              {
               "tuple": []
              },
              {
               "float": "-26.25"
              },
              {
               "dict": [
                [
                 {
                  "str": "'units'"
                 },
                 {
                  "str": "'m'"
                 }
                ]
               ]
              }
             ]
            }
           ],
           [
            {
             "str": "'semiminor_axis'"
            },
            {
             "Variable": [
              {
               "tuple": []
              },
              {
               "float": "27.5"
              },
              {
               "dict": [
                [
                 {
                  "str": "'units'"
                 },
                 {
                  "str": "'m'"
                 }
                ]
               ]
              }
             ]
            }
           ]
          ]
         },
         {
          "dict": [
           [
            {
             "str": "'reference_ellipsoid'"
            },
            {
             "str": "'text 20'"
            }
           ]
          ]
         }
        ]
       }
      ],
      [
       {
        "str": "'projection'"
       },
       {
        "Group": [
         "/projection",
         null,
         {
          "dict": [
           [
            {
             "str": "'center_of_projection'"
            },
            {
             "Group": [
              "/projection/center_of_projection",
              null,
              {
               "dict": [
                [
                 {
                  "str": "'longitude'"
                 },
                 {
                  "Variable": [
                   {
                    "tuple": []
                   },
                   {
                    "float": "50.0"
                   },
                   {
                    "dict": [
                     [
                      {
                       "str": "'units'"
                      },
                      {
                       "str": "'deg'"
                      }
                     ]
                    ]
                   }
                  ]
                 }
                ],
                [
                 {
                  "str": "'latitude'"
                 },
                 {
                  "Variable": [
                   {
                    "tuple": []
                   },
                   {
                    "float": "-51.25"
                   },
                   {
                    "dict": [
                     [
                      {
                       "str": "'units'"
                      },
                      {
                       "str": "'deg'"
                      }
                     ]
                    ]
                   }
                  ]
                 }
                ]
               ]
              },
              {
               "dict": []
              }
             ]
            }
           ]
          ]
         },
         {
          "dict": [
           [
            {
             "str": "'type'"
            },
            {
             "str": "'text 39'"
            }
           ],
           [
            {
             "str": "'scale_factor'"
            },
            {
             "float": "52.5"
            }
           ]
          ]
         }
        ]
       }
      ],
      [
       {
        "str": "'corner_points'"
       },
       {
        "Group": [
         "/corner_points",
         null,
         {
          "dict": [
           [
            {
             "str": "'projected'"
            },
            {
             "Group": [
              "/corner_points/projected",
              null,
              {
               "dict": [
                [
                 {
                  "str": "'corner'"
                 },
                 {
                  "Variable": [
                   {
                    "list": [
                     {
                      "str": "'corner'"
                     }
                    ]
                   },
                   {
                    "list": [
                     {
                      "str": "'top_left'"
                     },
                     {
                      "str": "'top_right'"
                     },
                     {
                      "str": "'bottom_right'"
                     },
                     {
                      "str": "'bottom_left'"
                     }
                    ]
                   },
                   {
                    "dict": []
                   }
                  ]
                 }
                ],
                [
                 {
                  "str": "'northing'"
                 },
                 {
                  "Variable": [
                   {
                    "list": [
                     {
                      "str": "'corner'"
                     }
                    ]
                   },
                   {
                    "list": [
                     {
                      "float": "70.0"
                     },
                     {
                      "float": "72.5"
                     },
                     {
                      "float": "75.0"
                     },
                     {
                      "float": "77.5"
                     }
                    ]
                   },
                   {
                    "dict": [
                     [
                      {
                       "str": "'units'"
                      },
                      {
                       "str": "'km'"
                      }
                     ]
                    ]
                   }
                  ]
                 }
                ],
                [
                 {
                  "str": "'easting'"
                 },
                 {
                  "Variable": [
                   {
                    "list": [
                     {
                      "str": "'corner'"
                     }
                    ]
                   },
                   {
                    "list": [
                     {
                      "float": "-71.25"
                     },
                     {
                      "float": "-73.75"
                     },
                     {
                      "float": "-76.25"
                     },
                     {
                      "float": "-78.75"
                     }
                    ]
                   },
                   {
                    "dict": [
                     [
                      {
                       "str": "'units'"
                      },
                      {
                       "str": "'km'"
                      }
                     ]
                    ]
                   }
                  ]
                 }
                ]
               ]
              },
              {
               "dict": []
              }
             ]
            }
           ],
           [
            {
             "str": "'geographic'"
            },
            {
             "Group": [
              "/corner_points/geographic",
              null,
              {
               "dict": [
                [
                 {
                  "str": "'corner'"
                 },
                 {
                  "Variable": [
                   {
                    "list": [
                     {
                      "str": "'corner'"
                     }
                    ]
                   },
                   {
                    "list": [
                     {
                      "str": "'top_left'"
                     },
                     {
                      "str": "'top_right'"
                     },
                     {
                      "str": "'bottom_right'"
                     },
                     {
                      "str": "'bottom_left'"
                     }
                    ]
                   },
                   {
                    "dict": []
                   }
                  ]
                 }
                ],
                [
                 {
                  "str": "'latitude'"
                 },
                 {
                  "Variable": [
                   {
                    "list": [
                     {
                      "str": "'corner'"
                     }
                    ]
                   },
                   {
                    "list": [
                     {
                      "float": "80.0"
                     },
                     {
                      "float": "82.5"
                     },
                     {
                      "float": "85.0"
                     },
                     {
                      "float": "87.5"
                     }
                    ]
                   },
                   {
                    "dict": [
                     [
                      {
                       "str": "'units'"
                      },
                      {
                       "str": "'deg'"
                      }
                     ]
                    ]
                   }
                  ]
                 }
                ],
                [
                 {
                  "str": "'longitude'"
                 },
                 {
                  "Variable": [
                   {
                    "list": [
                     {
                      "str": "'corner'"
                     }
                    ]
                   },
                   {
                    "list": [
                     {
                      "float": "-81.25"
                     },
                     {
                      "float": "-83.75"
                     },
                     {
                      "float": "-86.25"
                     },
                     {
                      "float": "-88.75"
                     }
                    ]
                   },
                   {
                    "dict": [
                     [
                      {
                       "str": "'units'"
                      },
                      {
                       "str": "'deg'"
                      }
                     ]
                    ]
                   }
                  ]
                 }
                ]
               ]
              },
              {
               "dict": []
              }
             ]
            }
           ]
          ]
         },
         {
          "dict": []
         }
        ]
       }
      ],
      [
       {
        "str": "'conversion_coefficients'"
       },
       {
        "Group": [
         "/conversion_coefficients",
         null,
         {
          "dict": [
           [
            {
             "str": "'projected_to_image'"
            },
            {
             "Group": [
              "/conversion_coefficients/projected_to_image",
              null,
              {
               "dict": [
                [
                 {
                  "str": "'names'"
                 },
                 {
                  "Variable": [
                   {
                    "list": [
                     {
                      "str": "'names'"
                     }
                    ]
                   },
                   {
                    "list": [
                     {
                      "str": "'A11'"
                     },
                     {
                      "str": "'A12'"
                     },
                     {
                      "str": "'A13'"
                     },
                     {
                      "str": "'A14'"
                     },
                     {
                      "str": "'A21'"
                     },
                     {
                      "str": "'A22'"
                     },
                     {
                      "str": "'A23'"
                     },
                     {
                      "str": "'A24'"
                     }
                    ]
                   },
                   {
                    "dict": []
                   }
                  ]
                 }
                ],
                [
                 {
                  "str": "'coefficients'"
                 },
                 {
                  "Variable": [
                   {
                    "list": [
                     {
                      "str": "'names'"
                     }
                    ]
                   },
                   {
                    "list": [
                     {
                      "float": "95.0"
                     },
                     {
                      "float": "-96.25"
                     },
                     {
                      "float": "97.5"
                     },
                     {
                      "float": "-98.75"
                     },
                     {
                      "float": "100.0"
                     },
                     {
                      "float": "-101.25"
                     },
                     {
                      "float": "102.5"
                     },
                     {
                      "float": "-103.75"
                     }
                    ]
                   },
                   {
                    "dict": []
                   }
                  ]
                 }
                ]
               ]
              },
              {
               "dict": [
                [
                 {
                  "str": "'formula'"
                 },
                 {
                  "str": "'E = A11 + A12 * R + A13 * C + A14 * R * C; N = A21 + A22 * R + A23 * C + A24 * R * C'"
                 }
                ],
                [
                 {
                  "str": "'E'"
                 },
                 {
                  "str": "'easting'"
                 }
                ],
                [
                 {
                  "str": "'N'"
                 },
                 {
                  "str": "'northing'"
                 }
                ],
                [
                 {
                  "str": "'R'"
                 },
                 {
                  "str": "'row (1-based)'"
                 }
                ],
                [
                 {
                  "str": "'C'"
                 },
                 {
                  "str": "'column (1-based)'"
                 }
                ]
               ]
              }
             ]
            }
           ],
           [
            {
             "str": "'image_to_projected'"
            },
            {
             "Group": [
              "/conversion_coefficients/image_to_projected",
              null,
              {
               "dict": [
                [
                 {
                  "str": "'names'"
                 },
                 {
                  "Variable": [
                   {
                    "list": [
                     {
                      "str": "'names'"
                     }
                    ]
                   },
                   {
                    "list": [
                     {
                      "str": "'B11'"
                     },
                     {
                      "str": "'B12'"
                     },
                     {
                      "str": "'B13'"
                     },
                     {
                      "str": "'B14'"
                     },
                     {
                      "str": "'B21'"
                     },
                     {
                      "str": "'B22'"
                     },
                     {
                      "str": "'B23'"
                     },
                     {
                      "str": "'B24'"
                     }
                    ]
                   },
                   {
                    "dict": []
                   }
                  ]
                 }
                ],
                [
                 {
                  "str": "'coefficients'"
                 },
                 {
                  "Variable": [
                   {
                    "list": [
                     {
                      "str": "'names'"
                     }
                    ]
                   },
                   {
                    "list": [
                     {
                      "float": "105.0"
                     },
                     {
                      "float": "-106.25"
                     },
                     {
                      "float": "107.5"
                     },
                     {
                      "float": "-108.75"
                     },
                     {
                      "float": "110.0"
                     },
                     {
                      "float": "-111.25"
                     },
                     {
                      "float": "112.5"
                     },
                     {
                      "float": "-113.75"
                     }
                    ]
                   },
                   {
                    "dict": []
                   }
                  ]
                 }
                ]
               ]
              },
              {
               "dict": [
                [
                 {
                  "str": "'formula'"
                 },
                 {
                  "str": "'R = B11 + B12 * E + B13 * N + B14 * E * N; C = B21 + B22 * E + B23 * N + B24 * E * N'"
                 }
                ],
                [
                 {
                  "str": "'E'"
                 },
                 {
                  "str": "'easting'"
                 }
                ],
                [
                 {
                  "str": "'N'"
                 },
                 {
                  "str": "'northing'"
                 }
                ],
                [
                 {
                  "str": "'R'"
                 },
                 {
                  "str": "'row (1-based)'"
                 }
                ],
                [
                 {
                  "str": "'C'"
                 },
                 {
                  "str": "'column (1-based)'"
                 }
                ]
               ]
              }
             ]
            }
           ]
          ]
         },
         {
          "dict": []
         }
        ]
       }
      ]
     ]
    },
    {
     "dict": []
    }
   ]
  }
 },
 "parsed/lcc": {
  "returns": {
   "Group": [
    "/",
    null,
    {
     "dict": [
      [
       {
        "str": "'general_information'"
       },
       {
        "Group": [
         "/general_information",
         null,
         {
          "dict": [
           [
            {
             "str": "'inter_line_distance_in_output_scene'"
            },
            {
             "Variable": [
              {
               "tuple": []
              },
              {
               "float": "-13.75"
              },
              {
               "dict": [
                [
                 {
                  "str": "'units'"
                 },
                 {
                  "str": "'m'"
                 }
                ]
               ]
              }
             ]
            }
           ],
           [
            {
             "str": "'inter_pixel_distance_in_output_scene'"
            },
            {
             "Variable": [
              {
               "tuple": []
              },
              {
               "float": "15.0"
              },
              {
               "dict": [
                [
                 {
                  "str": "'units'"
                 },
                 {
                  "str": "'m'"
                 }
                ]
               ]
              }
             ]
            }
           ],
           [
            {
             "str": "'angle_between_projection_aixs_from_true_north_at_processed_scene_center'"
            },
            {
             "Variable": [
              {
               "tuple": []
              },
              {
               "float": "-16.25"
              },
              {
               "dict": [
                [
                 {
                  "str": "'units'"
                 },
                 {
                  "str": "'deg'"
                 }
                ]
               ]
              }
             ]
            }
           ],
           [
            {
             "str": "'actual_platform_orbital_inclination'"
            },
            {
             "Variable": [
              {
               "tuple": []
              },
              {
               "float": "17.5"
              },
              {
               "dict": [
                [
                 {
                  "str": "'units'"
                 },
                 {
                  "str": "'deg'"
                 }
                ]
               ]
              }
             ]
            }
           ],
           [
            {
             "str": "'actual_ascending_node'"
            },
            {
             "Variable": [
              {
               "tuple": []
              },
              {
               "float": "-18.75"
              },
              {
               "dict": [
                [
                 {
                  "str": "'units'"
                 },
                 {
                  "str": "'deg'"
                 }
                ]
               ]
              }
             ]
            }
           ],
           [
            {
             "str": "'distance_of_platform_at_input_scene_center_from_geocenter'"
            },
            {
             "Variable": [
              {
               "tuple": []
              },
              {
               "float": "20.0"
              },
              {
               "dict": [
                [
                 {
                  "str": "'units'"
                 },
                 {
                  "str": "'m'"
                 }
                ]
               ]
              }
             ]
            }
           ],
           [
            {
             "str": "'geodetic_altitude_of_the_platform_relative_to_the_ellipsoid'"
            },
            {
             "Variable": [
              {
               "tuple": []
              },
              {
               "float": "-21.25"
              },
              {
               "dict": [
                [
                 {
                  "str": "'units'"
                 },
                 {
                  "str": "'m'"
                 }
                ]
               ]
              }
             ]
            }
           ],
           [
            {
             "str": "'actual_ground_speed_at_nadir_at_input_scene_center_time'"
            },
            {
             "Variable": [
              {
               "tuple": []
              },
              {
               "float": "22.5"
              },
              {
               "dict": [
                [
                 {
                  "str": "'units'"
                 },
                 {
                  "str": "'m/s'"
                 }
                ]
               ]
              }
             ]
            }
           ],
           [
            {
             "str": "'platform_headings'"
            },
            {
             "Variable": [
              {
               "tuple": []
              },
              {
               "float": "-23.75"
              },
              {
               "dict": [
                [
                 {
                  "str": "'units'"
                 },
                 {
                  "str": "'deg'"
                 }
                ]
               ]
              }
             ]
            }
           ]
          ]
         },
         {
          "dict": [
           [
            {
             "str": "'map_projection_type'"
            },
            {
             "str": "'text 8'"
            }
           ],
           [
            {
             "str": "'n_columns'"
            },
            {
             "int": "63"
            }
           ],
           [
            {
             "str": "'n_rows'"
            },
            {
             "int": "70"
            }
           ]
          ]
         }
        ]
       }
      ],
      [
       {
        "str": "'ellipsoid_parameters'"
       },
       {
        "Group": [
         "/ellipsoid_parameters",
         null,
         {
          "dict": [
           [
            {
             "str": "'semimajor_axis'"
            },
            {
             "Variable": [
              {
               "tuple": []
              },
              {
               "float": "-26.25"
              },
              {
               "dict": [
                [
                 {
                  "str": "'units'"
                 },
                 {
                  "str": "'m'"
                 }
                ]
               ]
              }
             ]
            }
           ],
           [
            {
             "str": "'semiminor_axis'"
            },
            {
             "Variable": [
              {
               "tuple": []
              },
              {
               "float": "27.5"
              },
              {
               "dict": [
                [
                 {
                  "str": "'units'"
                 },
                 {
                  "str": "'m'"
                 }
                ]
               ]
              }
             ]
            }
           ]
          ]
         },
         {
          "dict": [
           [
            {
             "str": "'reference_ellipsoid'"
            },
            {
             "str": "'text 20'"
            }
           ]
          ]
         }
        ]
       }
      ],
      [
       {
        "str": "'projection'"
       },
       {
        "Group": [
         "/projection",
         null,
         {
          "dict": [
           [
            {
             "str": "'center_of_projection'"
            },
            {
             "Group": [
              "/projection/center_of_projection",
              null,
              {
               "dict": [
                [
                 {
                  "str": "'longitude'"
                 },
                 {
                  "Variable": [
                   {
                    "tuple": []
                   },
                   {
                    "float": "57.5"
                   },
                   {
                    "dict": [
                     [
                      {
                       "str": "'units'"
                      },
                      {
                       "str": "'deg'"
                      }
                     ]
                    ]
                   }
                  ]
                 }
                ],
                [
                 {
                  "str": "'latitude'"
                 },
                 {
                  "Variable": [
                   {
                    "tuple": []
                   },
                   {
                    "float": "-58.75"
                   },
                   {
                    "dict": [
                     [
                      {
                       "str": "'units'"
                      },
                      {
                       "str": "'deg'"
                      }
                     ]
                    ]
                   }
                  ]
                 }
                ]
               ]
              },
              {
               "dict": []
              }
             ]
            }
           ],
           [
            {
             "str": "'standard_parallel'"
            },
            {
             "Group": [
              "/projection/standard_parallel",
              null,
              {
               "dict": [
                [
                 {
                  "str": "'phi1'"
                 },
                 {
                  "Variable": [
                   {
                    "tuple": []
                   },
                   {
                    "float": "60.0"
                   },
                   {
                    "dict": [
                     [
                      {
                       "str": "'units'"
                      },
                      {
                       "str": "'deg'"
                      }
                     ]
                    ]
                   }
                  ]
                 }
                ],
                [
                 {
                  "str": "'phi2'"
                 },
                 {
                  "Variable": [
                   {
                    "tuple": []
                   },
                   {
                    "float": "-61.25"
                   },
                   {
                    "dict": [
                     [
                      {
                       "str": "'units'"
                      },
                      {
                       "str": "'deg'"
                      }
                     ]
                    ]
                   }
                  ]
                 }
                ]
               ]
              },
              {
               "dict": []
              }
             ]
            }
           ]
          ]
         },
         {
          "dict": [
           [
            {
             "str": "'projection_descriptor'"
            },
            {
             "str": "'text 43'"
            }
           ]
          ]
         }
        ]
       }
      ],
      [
       {
        "str": "'corner_points'"
       },
       {
        "Group": [
         "/corner_points",
         null,
         {
          "dict": [
           [
            {
             "str": "'projected'"
            },
            {
             "Group": [
              "/corner_points/projected",
              null,
              {
               "dict": [
                [
                 {
                  "str": "'corner'"
                 },
                 {
                  "Variable": [
                   {
                    "list": [
                     {
                      "str": "'corner'"
                     }
                    ]
                   },
                   {
                    "list": [
                     {
                      "str": "'top_left'"
                     },
                     {
                      "str": "'top_right'"
                     },
                     {
                      "str": "'bottom_right'"
                     },
                     {
                      "str": "'bottom_left'"
                     }
                    ]
                   },
                   {
                    "dict": []
                   }
                  ]
                 }
                ],
                [
                 {
                  "str": "'northing'"
                 },
                 {
                  "Variable": [
                   {
                    "list": [
                     {
                      "str": "'corner'"
                     }
                    ]
                   },
                   {
                    "list": [
                     {
                      "float": "70.0"
                     },
                     {
                      "float": "72.5"
                     },
                     {
                      "float": "75.0"
                     },
                     {
                      "float": "77.5"
                     }
                    ]
                   },
                   {
                    "dict": [
                     [
                      {
                       "str": "'units'"
                      },
                      {
                       "str": "'km'"
                      }
                     ]
                    ]
                   }
                  ]
                 }
                ],
                [
                 {
                  "str": "'easting'"
                 },
                 {
                  "Variable": [
                   {
                    "list": [
                     {
                      "str": "'corner'"
                     }
                    ]
                   },
                   {
                    "list": [
                     {
                      "float": "-71.25"
                     },
                     {
                      "float": "-73.75"
                     },
                     {
                      "float": "-76.25"
                     },
                     {
                      "float": "-78.75"
                     }
                    ]
                   },
                   {
                    "dict": [
                     [
                      {
                       "str": "'units'"
                      },
                      {
                       "str": "'km'"
                      }
                     ]
                    ]
                   }
                  ]
                 }
                ]
               ]
              },
              {
               "dict": []
              }
             ]
            }
           ],
           [
            {
             "str": "'geographic'"
            },
            {
             "Group": [
              "/corner_points/geographic",
              null,
              {
               "dict": [
                [
                 {
                  "str": "'corner'"
                 },
                 {
                  "Variable": [
                   {
                    "list": [
                     {
                      "str": "'corner'"
                     }
                    ]
                   },
                   {
                    "list": [
                     {
                      "str": "'top_left'"
                     },
                     {
                      "str": "'top_right'"
                     },
                     {
                      "str": "'bottom_right'"
                     },
                     {
                      "str": "'bottom_left'"
                     }
                    ]
                   },
                   {
                    "dict": []
                   }
                  ]
                 }
                ],
                [
                 {
                  "str": "'latitude'"
                 },
                 {
                  "Variable": [
                   {
                    "list": [
                     {
                      "str": "'corner'"
                     }
                    ]
                   },
                   {
                    "list": [
                     {
                      "float": "80.0"
                     },
                     {
                      "float": "82.5"
                     },
                     {
                      "float": "85.0"
                     },
                     {
                      "float": "87.5"
                     }
                    ]
                   },
                   {
                    "dict": [
                     [
                      {
                       "str": "'units'"
                      },
                      {
                       "str": "'deg'"
                      }
                     ]
                    ]
                   }
                  ]
                 }
                ],
                [
                 {
                  "str": "'longitude'"
                 },
                 {
                  "Variable": [
                   {
                    "list": [
                     {
                      "str": "'corner'"
                     }
                    ]
                   },
                   {
                    "list": [
                     {
                      "float": "-81.25"
                     },
                     {
                      "float": "-83.75"
                     },
                     {
                      "float": "-86.25"
                     },
                     {
                      "float": "-88.75"
                     }
                    ]
                   },
                   {
                    "dict": [
                     [
                      {
                       "str": "'units'"
                      },
                      {
                       "str": "'deg'"
                      }
                     ]
                    ]
                   }
                  ]
                 }
                ]
               ]
              },
              {
               "dict": []
              }
             ]
            }
           ]
          ]
         },
         {
          "dict": []
         }
        ]
       }
      ],
      [
       {
        "str": "'conversion_coefficients'"
       },
       {
        "Group": [
         "/conversion_coefficients",
         null,
         {
          "dict": [
           [
            {
             "str": "'projected_to_image'"
            },
            {
             "Group": [
              "/conversion_coefficients/projected_to_image",
              null,
              {
               "dict": [
                [
                 {
                  "str": "'names'"
                 },
                 {
                  "Variable": [
                   {
                    "list": [
                     {
                      "str": "'names'"
                     }
                    ]
                   },
                   {
                    "list": [
                     {
                      "str": "'A11'"
                     },
                     {
                      "str": "'A12'"
                     },
                     {
                      "str": "'A13'"
                     },
                     {
                      "str": "'A14'"
                     },
                     {
                      "str": "'A21'"
                     },
                     {
                      "str": "'A22'"
                     },
                     {
                      "str": "'A23'"
                     },
                     {
                      "str": "'A24'"
                     }
                    ]
                   },
                   {
                    "dict": []
                   }
                  ]
                 }
                ],
                [
                 {
                  "str": "'coefficients'"
                 },
                 {
                  "Variable": [
                   {
                    "list": [
                     {
                      "str": "'names'"
                     }
                    ]
                   },
                   {
                    "list": [
                     {
                      "float": "95.0"
                     },
                     {
                      "float": "-96.25"
                     },
                     {
                      "float": "97.5"
                     },
                     {
                      "float": "-98.75"
                     },
                     {
                      "float": "100.0"
                     },
                     {
                      "float": "-101.25"
                     },
                     {
                      "float": "102.5"
                     },
                     {
                      "float": "-103.75"
                     }
                    ]
                   },
                   {
                    "dict": []
                   }
                  ]
                 }
                ]
               ]
              },
              {
               "dict": [
                [
                 {
                  "str": "'formula'"
                 },
                 {
                  "str": "'E = A11 + A12 * R + A13 * C + A14 * R * C; N = A21 + A22 * R + A23 * C + A24 * R * C'"
                 }
                ],
                [
                 {
                  "str": "'E'"
                 },
                 {
                  "str": "'easting'"
                 }
                ],
                [
                 {
                  "str": "'N'"
                 },
                 {
                  "str": "'northing'"
                 }
                ],
                [
                 {
                  "str": "'R'"
                 },
                 {
                  "str": "'row (1-based)'"
                 }
                ],
                [
                 {
                  "str": "'C'"
                 },
                 {
                  "str": "'column (1-based)'"
                 }
                ]
               ]
              }
             ]
            }
           ],
           [
            {
             "str": "'image_to_projected'"
            },
            {
             "Group": [
              "/conversion_coefficients/image_to_projected",
              null,
              {
               "dict": [
                [
                 {
                  "str": "'names'"
                 },
                 {
                  "Variable": [
                   {
                    "list": [
                     {
                      "str": "'names'"
                     }
                    ]
                   },
                   {
                    "list": [
                     {
                      "str": "'B11'"
                     },
                     {
                      "str": "'B12'"
                     },
                     {
                      "str": "'B13'"
                     },
                     {
                      "str": "'B14'"
                     },
                     {
                      "str": "'B21'"
                     },
                     {
                      "str": "'B22'"
                     },
                     {
                      "str": "'B23'"
                     },
                     {
                      "str": "'B24'"
                     }
                    ]
                   },
                   {
                    "dict": []
                   }
                  ]
                 }
                ],
                [
                 {
                  "str": "'coefficients'"
                 },
                 {
                  "Variable": [
                   {
                    "list": [
                     {
                      "str": "'names'"
                     }
                    ]
                   },
                   {
                    "list": [
                     {
                      "float": "105.0"
                     },
                     {
                      "float": "-106.25"
                     },
                     {
                      "float": "107.5"
                     },
                     {
                      "float": "-108.75"
                     },
                     {
                      "float": "110.0"
                     },
                     {
                      "float": "-111.25"
                     },
                     {
                      "float": "112.5"
                     },
                     {
                      "float": "-113.75"
                     }
                    ]
                   },
                   {
                    "dict": []
                   }
                  ]
                 }
                ]
               ]
              },
              {
               "dict": [
                [
                 {
                  "str": "'formula'"
                 },
                 {
                  "str": "'R = B11 + B12 * E + B13 * N + B14 * E * N; C = B21 + B22 * E + B23 * N + B24 * E * N'"
                 }
                ],
                [
                 {
                  "str": "'E'"
                 },
                 {
                  "str": "'easting'"
                 }
                ],
                [
                 {
                  "str": "'N'"
                 },
                 {
                  "str": "'northing'"
                 }
                ],
                [
                 {
                  "str": "'R'"
                 },
                 {
                  "str": "'row (1-based)'"
                 }
                ],
                [
                 {
                  "str": "'C'"
                 },
                 {
                  "str": "'column (1-based)'"
                 }
                ]
               ]
              }
             ]
            }
           ]
          ]
         },
         {
          "dict": []
         }
        ]
       }
      ]
     ]
    },
    {
     "dict": []
    }
   ]
  }
 },
 "parsed/mer": {
  "returns": {
   "Group": [
    "/",
    null,
    {
     "dict": [
      [
       {
        "str": "'general_information'"
       },
       {
        "Group": [
         "/general_information",
         null,
         {
          "dict": [
           [
            {
             "str": "'inter_line_distance_in_output_scene'"
            },
            {
             "Variable": [
              {
               "tuple": []
              },
              {
               "float": "-13.75"
              },
              {
               "dict": [
                [
                 {
                  "str": "'units'"
                 },
                 {
                  "str": "'m'"
                 }
                ]
               ]
              }
             ]
            }
           ],
           [
            {
             "str": "'inter_pixel_distance_in_output_scene'"
            },
            {
             "Variable": [
              {
               "tuple": []
              },
              {
               "float": "15.0"
              },
              {
               "dict": [
                [
                 {
                  "str": "'units'"
                 },
                 {
                  "str": "'m'"
                 }
                ]
               ]
              }
             ]
            }
           ],
           [
            {
             "str": "'angle_between_projection_aixs_from_true_north_at_processed_scene_center'"
            },
            {
             "Variable": [
              {
               "tuple": []
              },
              {
               "float": "-16.25"
              },
              {
               "dict": [
                [
                 {
                  "str": "'units'"
                 },
                 {
                  "str": "'deg'"
                 }
                ]
               ]
              }
             ]
            }
           ],
           [
            {
             "str": "'actual_platform_orbital_inclination'"
            },
            {
             "Variable": [
              {
               "tuple": []
              },
              {
               "float": "17.5"
              },
              {
               "dict": [
                [
                 {
                  "str": "'units'"
                 },
                 {
                  "str": "'deg'"
                 }
                ]
               ]
              }
             ]
            }
           ],
           [
            {
             "str": "'actual_ascending_node'"
            },
            {
             "Variable": [
              {
               "tuple": []
              },
              {
               "float": "-18.75"
              },
              {
               "dict": [
                [
                 {
                  "str": "'units'"
                 },
                 {
                  "str": "'deg'"
                 }
                ]
               ]
              }
             ]
            }
           ],
           [
            {
             "str": "'distance_of_platform_at_input_scene_center_from_geocenter'"
            },
            {
             "Variable": [
              {
               "tuple": []
              },
              {
               "float": "20.0"
              },
              {
               "dict": [
                [
                 {
                  "str": "'units'"
                 },
                 {
                  "str": "'m'"
                 }
                ]
               ]
              }
             ]
            }
           ],
           [
            {
             "str": "'geodetic_altitude_of_the_platform_relative_to_the_ellipsoid'"
            },
            {
             "Variable": [
              {
               "tuple": []
              },
              {
               "float": "-21.25"
              },
              {
               "dict": [
                [
                 {
                  "str": "'units'"
                 },
                 {
                  "str": "'m'"
                 }
                ]
               ]
              }
             ]
            }
           ],
           [
            {
             "str": "'actual_ground_speed_at_nadir_at_input_scene_center_time'"
            },
            {
             "Variable": [
              {
               "tuple": []
              },
              {
               "float": "22.5"
              },
              {
               "dict": [
                [
                 {
                  "str": "'units'"
                 },
                 {
                  "str": "'m/s'"
                 }
                ]
               ]
              }
             ]
            }
           ],
           [
            {
             "str": "'platform_headings'"
            },
            {
             "Variable": [
              {
               "tuple": []
              },
              {
               "float": "-23.75"
              },
              {
               "dict": [
                [
                 {
                  "str": "'units'"
                 },
                 {
                  "str": "'deg'"
                 }
                ]
               ]
              }
             ]
            }
           ]
          ]
         },
         {
          "dict": [
           [
            {
             "str": "'map_projection_type'"
            },
            {
             "str": "'text 8'"
            }
           ],
           [
            {
             "str": "'n_columns'"
            },
            {
             "int": "63"
            }
           ],
           [
            {
             "str": "'n_rows'"
            },
            {
             "int": "70"
            }
           ]
          ]
         }
        ]
       }
      ],
      [
       {
        "str": "'ellipsoid_parameters'"
       },
       {
        "Group": [
         "/ellipsoid_parameters",
         null,
         {
          "dict": [
           [
            {
             "str": "'semimajor_axis'"
            },
            {
             "Variable": [
              {
               "tuple": []
              },
              {
               "float": "-26.25"
              },
              {
               "dict": [
                [
                 {
                  "str": "'units'"
                 },
                 {
                  "str": "'m'"
                 }
                ]
               ]
              }
             ]
            }
           ],
           [
            {
             "str": "'semiminor_axis'"
            },
            {
             "Variable": [
              {
               "tuple": []
              },
              {
               "float": "27.5"
              },
              {
               "dict": [
                [
                 {
                  "str": "'units'"
                 },
                 {
                  "str": "'m'"
                 }
                ]
               ]
              }
             ]
            }
           ]
          ]
         },
         {
          "dict": [
           [
            {
             "str": "'reference_ellipsoid'"
            },
            {
             "str": "'text 20'"
            }
           ]
          ]
         }
        ]
       }
      ],
      [
       {
        "str": "'projection'"
       },
       {
        "Group": [
         "/projection",
         null,
         {
          "dict": [
           [
            {
             "str": "'center_of_projection'"
            },
            {
             "Group": [
              "/projection/center_of_projection",
              null,
              {
               "dict": [
                [
                 {
                  "str": "'longitude'"
                 },
                 {
                  "Variable": [
                   {
                    "tuple": []
                   },
                   {
                    "float": "57.5"
                   },
                   {
                    "dict": [
                     [
                      {
                       "str": "'units'"
                      },
                      {
                       "str": "'deg'"
                      }
                     ]
                    ]
                   }
                  ]
                 }
                ],
                [
                 {
                  "str": "'latitude'"
                 },
                 {
                  "Variable": [
                   {
                    "tuple": []
                   },
                   {
                    "float": "-58.75"
                   },
                   {
                    "dict": [
                     [
                      {
                       "str": "'units'"
                      },
                      {
                       "str": "'deg'"
                      }
                     ]
                    ]
                   }
                  ]
                 }
                ]
               ]
              },
              {
               "dict": []
              }
             ]
            }
           ],
           [
            {
             "str": "'standard_parallel'"
            },
            {
             "Group": [
              "/projection/standard_parallel",
              null,
              {
               "dict": [
                [
                 {
                  "str": "'phi1'"
                 },
                 {
                  "Variable": [
                   {
                    "tuple": []
                   },
                   {
                    "float": "60.0"
                   },
                   {
                    "dict": [
                     [
                      {
                       "str": "'units'"
                      },
                      {
                       "str": "'deg'"
                      }
                     ]
                    ]
                   }
                  ]
                 }
                ],
                [
                 {
                  "str": "'phi2'"
                 },
                 {
                  "Variable": [
                   {
                    "tuple": []
                   },
                   {
                    "float": "-61.25"
                   },
                   {
                    "dict": [
                     [
                      {
                       "str": "'units'"
                      },
                      {
                       "str": "'deg'"
                      }
                     ]
                    ]
                   }
                  ]
                 }
                ]
               ]
              },
              {
               "dict": []
              }
             ]
            }
           ]
          ]
         },
         {
          "dict": [
           [
            {
             "str": "'projection_descriptor'"
            },
            {
             "str": "'text 43'"
            }
           ]
          ]
         }
        ]
       }
      ],
      [
       {
        "str": "'corner_points'"
       },
       {
        "Group": [
         "/corner_points",
         null,
         {
          "dict": [
           [
            {
             "str": "'projected'"
            },
            {
             "Group": [
              "/corner_points/projected",
              null,
              {
               "dict": [
                [
                 {
                  "str": "'corner'"
                 },
                 {
                  "Variable": [
                   {
                    "list": [
                     {
                      "str": "'corner'"
                     }
                    ]
                   },
                   {
                    "list": [
                     {
                      "str": "'top_left'"
                     },
                     {
                      "str": "'top_right'"
                     },
                     {
                      "str": "'bottom_right'"
                     },
                     {
                      "str": "'bottom_left'"
                     }
                    ]
                   },
                   {
                    "dict": []
                   }
                  ]
                 }
                ],
                [
                 {
                  "str": "'northing'"
                 },
                 {
                  "Variable": [
                   {
                    "list": [
                     {
                      "str": "'corner'"
                     }
                    ]
                   },
                   {
                    "list": [
                     {
                      "float": "70.0"
                     },
                     {
                      "float": "72.5"
                     },
                     {
                      "float": "75.0"
                     },
                     {
                      "float": "77.5"
                     }
                    ]
                   },
                   {
                    "dict": [
                     [
                      {
                       "str": "'units'"
                      },
                      {
                       "str": "'km'"
                      }
                     ]
                    ]
                   }
                  ]
                 }
                ],
                [
                 {
                  "str": "'easting'"
                 },
                 {
                  "Variable": [
                   {
                    "list": [
                     {
                      "str": "'corner'"
                     }
                    ]
                   },
                   {
                    "list": [
                     {
                      "float": "-71.25"
                     },
                     {
                      "float": "-73.75"
                     },
                     {
                      "float": "-76.25"
                     },
                     {
                      "float": "-78.75"
                     }
                    ]
                   },
                   {
                    "dict": [
                     [
                      {
                       "str": "'units'"
                      },
                      {
                       "str": "'km'"
                      }
                     ]
                    ]
                   }
                  ]
                 }
                ]
               ]
              },
              {
               "dict": []
              }
             ]
            }
           ],
           [
            {
             "str": "'geographic'"
            },
            {
             "Group": [
              "/corner_points/geographic",
              null,
              {
               "dict": [
                [
                 {
                  "str": "'corner'"
                 },
                 {
                  "Variable": [
                   {
                    "list": [
                     {
                      "str": "'corner'"
                     }
                    ]
                   },
                   {
                    "list": [
                     {
                      "str": "'top_left'"
                     },
                     {
                      "str": "'top_right'"
                     },
                     {
                      "str": "'bottom_right'"
                     },
                     {
                      "str": "'bottom_left'"
                     }
                    ]
                   },
                   {
                    "dict": []
                   }
                  ]
                 }
                ],
                [
                 {
                  "str": "'latitude'"
                 },
                 {
                  "Variable": [
                   {
                    "list": [
                     {
                      "str": "'corner'"
                     }
                    ]
                   },
                   {
                    "list": [
                     {
                      "float": "80.0"
                     },
                     {
                      "float": "82.5"
                     },
                     {
                      "float": "85.0"
                     },
                     {
                      "float": "87.5"
                     }
                    ]
                   },
                   {
                    "dict": [
                     [
                      {
                       "str": "'units'"
                      },
                      {
                       "str": "'deg'"
                      }
                     ]
                    ]
                   }
                  ]
                 }
                ],
                [
                 {
                  "str": "'longitude'"
                 },
                 {
                  "Variable": [
                   {
                    "list": [
                     {
                      "str": "'corner'"
                     }
                    ]
                   },
                   {
                    "list": [
                     {
                      "float": "-81.25"
                     },
                     {
                      "float": "-83.75"
                     },
                     {
                      "float": "-86.25"
                     },
                     {
                      "float": "-88.75"
                     }
                    ]
                   },
                   {
                    "dict": [
                     [
                      {
                       "str": "'units'"
                      },
                      {
                       "str": "'deg'"
                      }
                     ]
                    ]
                   }
                  ]
                 }
                ]
               ]
              },
              {
               "dict": []
              }
             ]
            }
           ]
          ]
         },
         {
          "dict": []
         }
        ]
       }
      ],
      [
       {
        "str": "'conversion_coefficients'"
       },
       {
        "Group": [
         "/conversion_coefficients",
         null,
         {
          "dict": [
           [
            {
             "str": "'projected_to_image'"
            },
            {
             "Group": [
              "/conversion_coefficients/projected_to_image",
              null,
              {
               "dict": [
                [
                 {
                  "str": "'names'"
                 },
                 {
                  "Variable": [
                   {
                    "list": [
                     {
                      "str": "'names'"
                     }
                    ]
                   },
                   {
                    "list": [
                     {
                      "str": "'A11'"
                     },
                     {
                      "str": "'A12'"
                     },
                     {
                      "str": "'A13'"
                     },
                     {
                      "str": "'A14'"
                     },
                     {
                      "str": "'A21'"
                     },
                     {
                      "str": "'A22'"
                     },
                     {
                      "str": "'A23'"
                     },
                     {
                      "str": "'A24'"
                     }
                    ]
                   },
                   {
                    "dict": []
                   }
                  ]
                 }
                ],
                [
                 {
                  "str": "'coefficients'"
                 },
                 {
                  "Variable": [
                   {
                    "list": [
                     {
                      "str": "'names'"
                     }
                    ]
                   },
                   {
                    "list": [
                     {
                      "float": "95.0"
                     },
                     {
                      "float": "-96.25"
                     },
                     {
                      "float": "97.5"
                     },
                     {
                      "float": "-98.75"
                     },
                     {
                      "float": "100.0"
                     },
                     {
                      "float": "-101.25"
                     },
                     {
                      "float": "102.5"
                     },
                     {
                      "float": "-103.75"
                     }
                    ]
                   },
                   {
                    "dict": []
                   }
                  ]
                 }
                ]
               ]
              },
              {
               "dict": [
                [
                 {
                  "str": "'formula'"
                 },
                 {
                  "str": "'E = A11 + A12 * R + A13 * C + A14 * R * C; N = A21 + A22 * R + A23 * C + A24 * R * C'"
                 }
                ],
                [
                 {
                  "str": "'E'"
                 },
                 {
                  "str": "'easting'"
                 }
                ],
                [
                 {
                  "str": "'N'"
                 },
                 {
                  "str": "'northing'"
                 }
                ],
                [
                 {
                  "str": "'R'"
                 },
                 {
                  "str": "'row (1-based)'"
                 }
                ],
                [
                 {
                  "str": "'C'"
                 },
                 {
                  "str": "'column (1-based)'"
                 }
                ]
               ]
              }
             ]
            }
           ],
           [
            {
             "str": "'image_to_projected'"
            },
            {
             "Group": [
              "/conversion_coefficients/image_to_projected",
              null,
              {
               "dict": [
                [
                 {
                  "str": "'names'"
                 },
                 {
                  "Variable": [
                   {
                    "list": [
                     {
                      "str": "'names'"
                     }
                    ]
                   },
                   {
                    "list": [
                     {
                      "str": "'B11'"
                     },
                     {
                      "str": "'B12'"
                     },
                     {
                      "str": "'B13'"
                     },
                     {
                      "str": "'B14'"
                     },
                     {
                      "str": "'B21'"
                     },
                     {
                      "str": "'B22'"
                     },
                     {
                      "str": "'B23'"
                     },
                     {
                      "str": "'B24'"
                     }
                    ]
                   },
                   {
                    "dict": []
                   }
                  ]
                 }
                ],
                [
                 {
                  "str": "'coefficients'"
                 },
                 {
                  "Variable": [
                   {
                    "list": [
                     {
                      "str": "'names'"
                     }
                    ]
                   },
                   {
                    "list": [
                     {
                      "float": "105.0"
                     },
                     {
                      "float": "-106.25"
                     },
                     {
                      "float": "107.5"
                     },
                     {
                      "float": "-108.75"
                     },
                     {
                      "float": "110.0"
                     },
                     {
                      "float": "-111.25"
                     },
                     {
                      "float": "112.5"
                     },
                     {
                      "float": "-113.75"
                     }
                    ]
                   },
                   {
                    "dict": []
                   }
                  ]
                 }
                ]
               ]
              },
              {
               "dict": [
                [
                 {
                  "str": "'formula'"
                 },
                 {
                  "str": "'R = B11 + B12 * E + B13 * N + B14 * E * N; C = B21 + B22 * E + B23 * N + B24 * E * N'"
                 }
                ],
                [
                 {
                  "str": "'E'"
                 },
                 {
                  "str": "'easting'"
                 }
                ],
                [
                 {
                  "str": "'N'"
                 },
                 {
                  "str": "'northing'"
                 }
                ],
                [
                 {
                  "str": "'R'"
                 },
                 {
                  "str": "'row (1-based)'"
                 }
                ],
                [
                 {
                  "str": "'C'"
                 },
                 {
                  "str": "'column (1-based)'"
                 }
                ]
               ]
              }
             ]
            }
           ]
          ]
         },
         {
          "dict": []
         }
        ]
       }
      ]
     ]
    },
    {
     "dict": []
    }
   ]
  }
 },
 "parsed/unknown": {
  "returns": {
   "Group": [
    "/",
    null,
    {
     "dict": [
      [
       {
        "str": "'general_information'"
       },
       {
        "Group": [
         "/general_information",
         null,
         {
          "dict": [
           [
            {
             "str": "'inter_line_distance_in_output_scene'"
            },
            {
             "Variable": [
              {
               "tuple": []
              },
              {
               "float": "-13.75"
              },
              {
               "dict": [
                [
                 {
                  "str": "'units'"
                 },
                 {
                  "str": "'m'"
                 }
                ]
               ]
              }
             ]
            }
           ],
           [
            {
             "str": "'inter_pixel_distance_in_output_scene'"
            },
            {
             "Variable": [
              {
               "tuple": []
              },
              {
               "float": "15.0"
              },
              {
               "dict": [
                [
                 {
                  "str": "'units'"
                 },
                 {
                  "str": "'m'"
                 }
                ]
               ]
              }
             ]
            }
           ],
           [
            {
             "str": "'angle_between_projection_aixs_from_true_north_at_processed_scene_center'"
            },
            {
             "Variable": [
              {
               "tuple": []
              },
              {
               "float": "-16.25"
              },
              {
               "dict": [
                [
                 {
                  "str": "'units'"
                 },
                 {
                  "str": "'deg'"
                 }
                ]
               ]
              }
             ]
            }
           ],
           [
            {
             "str": "'actual_platform_orbital_inclination'"
            },
            {
             "Variable": [
              {
               "tuple": []
              },
              {
               "float": "17.5"
              },
              {
               "dict": [
                [
                 {
                  "str": "'units'"
                 },
                 {
                  "str": "'deg'"
                 }
                ]
               ]
              }
             ]
            }
           ],
           [
            {
             "str": "'actual_ascending_node'"
            },
            {
             "Variable": [
              {
               "tuple": []
              },
              {
               "float": "-18.75"
              },
              {
               "dict": [
                [
                 {
                  "str": "'units'"
                 },
                 {
                  "str": "'deg'"
                 }
                ]
               ]
              }
             ]
            }
           ],
           [
            {
             "str": "'distance_of_platform_at_input_scene_center_from_geocenter'"
            },
            {
             "Variable": [
              {
               "tuple": []
              },
              {
               "float": "20.0"
              },
              {
               "dict": [
                [
                 {
                  "str": "'units'"
                 },
                 {
                  "str": "'m'"
                 }
                ]
               ]
              }
             ]
            }
           ],
           [
            {
             "str": "'geodetic_altitude_of_the_platform_relative_to_the_ellipsoid'"
            },
            {
             "Variable": [
              {
               "tuple": []
              },
              {
               "float": "-21.25"
              },
              {
               "dict": [
                [
                 {
                  "str": "'units'"
                 },
                 {
                  "str": "'m'"
                 }
                ]
               ]
              }
             ]
            }
           ],
           [
            {
             "str": "'actual_ground_speed_at_nadir_at_input_scene_center_time'"
            },
            {
             "Variable": [
              {
               "tuple": []
              },
              {
               "float": "22.5"
              },
              {
               "dict": [
                [
                 {
                  "str": "'units'"
                 },
                 {
                  "str": "'m/s'"
                 }
                ]
               ]
              }
             ]
            }
           ],
           [
            {
             "str": "'platform_headings'"
            },
            {
             "Variable": [
              {
               "tuple": []
              },
              {
               "float": "-23.75"
              },
              {
               "dict": [
                [
                 {
                  "str": "'units'"
                 },
                 {
                  "str": "'deg'"
                 }
                ]
               ]
              }
             ]
            }
           ]
          ]
         },
         {
          "dict": [
           [
            {
             "str": "'map_projection_type'"
            },
            {
             "str": "'text 8'"
            }
           ],
           [
            {
             "str": "'n_columns'"
            },
            {
             "int": "63"
            }
           ],
           [
            {
             "str": "'n_rows'"
            },
            {
             "int": "70"
            }
           ]
          ]
         }
        ]
       }
      ],
      [
       {
        "str": "'ellipsoid_parameters'"
       },
       {
        "Group": [
         "/ellipsoid_parameters",
         null,
         {
          "dict": [
           [
            {
             "str": "'semimajor_axis'"
            },
            {
             "Variable": [
              {
               "tuple": []
              },
              {
               "float": "-26.25"
              },
              {
               "dict": [
                [
                 {
                  "str": "'units'"
                 },
                 {
                  "str": "'m'"
                 }
                ]
               ]
              }
             ]
            }
           ],
           [
            {
             "str": "'semiminor_axis'"
            },
            {
             "Variable": [
              {
               "tuple": []
              },
              {
               "float": "27.5"
              },
              {
               "dict": [
                [
                 {
                  "str": "'units'"
                 },
                 {
                  "str": "'m'"
                 }
                ]
               ]
              }
             ]
            }
           ]
          ]
         },
         {
          "dict": [
           [
            {
             "str": "'reference_ellipsoid'"
            },
            {
             "str": "'text 20'"
            }
           ]
          ]
         }
        ]
       }
      ],
      [
       {
        "str": "'corner_points'"
       },
       {
        "Group": [
         "/corner_points",
         null,
         {
          "dict": [
           [
            {
             "str": "'projected'"
            },
            {
             "Group": [
              "/corner_points/projected",
              null,
              {
               "dict": [
                [
                 {
                  "str": "'corner'"
                 },
                 {
                  "Variable": [
                   {
                    "list": [
                     {
                      "str": "'corner'"
                     }
                    ]
                   },
                   {
                    "list": [
                     {
                      "str": "'top_left'"
                     },
                     {
                      "str": "'top_right'"
                     },
                     {
                      "str": "'bottom_right'"
                     },
                     {
                      "str": "'bottom_left'"
                     }
                    ]
                   },
                   {
                    "dict": []
                   }
                  ]
                 }
                ],
                [
                 {
                  "str": "'northing'"
                 },
                 {
                  "Variable": [
                   {
                    "list": [
                     {
                      "str": "'corner'"
                     }
                    ]
                   },
                   {
                    "list": [
                     {
                      "float": "70.0"
                     },
                     {
                      "float": "72.5"
                     },
                     {
                      "float": "75.0"
                     },
                     {
                      "float": "77.5"
                     }
                    ]
                   },
                   {
                    "dict": [
                     [
                      {
                       "str": "'units'"
                      },
                      {
                       "str": "'km'"
                      }
                     ]
                    ]
                   }
                  ]
                 }
                ],
                [
                 {
                  "str": "'easting'"
                 },
                 {
                  "Variable": [
                   {
                    "list": [
                     {
                      "str": "'corner'"
                     }
                    ]
                   },
                   {
                    "list": [
                     {
                      "float": "-71.25"
                     },
                     {
                      "float": "-73.75"
                     },
                     {
                      "float": "-76.25"
                     },
                     {
                      "float": "-78.75"
                     }
                    ]
                   },
                   {
                    "dict": [
                     [
                      {
                       "str": "'units'"
                      },
                      {
                       "str": "'km'"
                      }
                     ]
                    ]
                   }
                  ]
                 }
                ]
               ]
              },
              {
               "dict": []
              }
             ]
            }
           ],
           [
            {
             "str": "'geographic'"
            },
            {
             "Group": [
              "/corner_points/geographic",
              null,
              {
               "dict": [
                [
                 {
                  "str": "'corner'"
                 },
                 {
                  "Variable": [
                   {
                    "list": [
                     {
                      "str": "'corner'"
                     }
                    ]
                   },
                   {
                    "list": [
                     {
                      "str": "'top_left'"
                     },
                     {
                      "str": "'top_right'"
                     },
                     {
                      "str": "'bottom_right'"
                     },
                     {
                      "str": "'bottom_left'"
                     }
                    ]
                   },
                   {
                    "dict": []
                   }
                  ]
                 }
                ],
                [
                 {
                  "str": "'latitude'"
                 },
                 {
                  "Variable": [
                   {
                    "list": [
                     {
                      "str": "'corner'"
                     }
                    ]
                   },
                   {
                    "list": [
                     {
                      "float": "80.0"
                     },
                     {
                      "float": "82.5"
                     },
                     {
                      "float": "85.0"
                     },
                     {
                      "float": "87.5"
                     }
                    ]
                   },
                   {
                    "dict": [
                     [
                      {
                       "str": "'units'"
                      },
                      {
                       "str": "'deg'"
                      }
                     ]
                    ]
                   }
                  ]
                 }
                ],
                [
                 {
                  "str": "'longitude'"
                 },
                 {
                  "Variable": [
                   {
                    "list": [
                     {
                      "str": "'corner'"
                     }
                    ]
                   },
                   {
                    "list": [
                     {
                      "float": "-81.25"
                     },
                     {
                      "float": "-83.75"
                     },
                     {
                      "float": "-86.25"
                     },
                     {
                      "float": "-88.75"
                     }
                    ]
                   },
                   {
                    "dict": [
                     [
                      {
                       "str": "'units'"
                      },
                      {
                       "str": "'deg'"
                      }
                     ]
                    ]
                   }
                  ]
                 }
                ]
               ]
              },
              {
               "dict": []
              }
             ]
            }
           ]
          ]
         },
         {
          "dict": []
         }
        ]
       }
      ],
      [
       {
        "str": "'conversion_coefficients'"
       },
       {
        "Group": [
         "/conversion_coefficients",
         null,
         {
          "dict": [
           [
            {
             "str": "'projected_to_image'"
            },
            {
             "Group": [
              "/conversion_coefficients/projected_to_image",
              null,
              {
               "dict": [
                [
                 {
                  "str": "'names'"
                 },
                 {
                  "Variable": [
                   {
                    "list": [
                     {
                      "str": "'names'"
                     }
                    ]
                   },
                   {
                    "list": [
                     {
                      "str": "'A11'"
                     },
                     {
                      "str": "'A12'"
                     },
                     {
                      "str": "'A13'"
                     },
                     {
                      "str": "'A14'"
                     },
                     {
                      "str": "'A21'"
                     },
                     {
                      "str": "'A22'"
                     },
                     {
                      "str": "'A23'"
                     },
                     {
                      "str": "'A24'"
                     }
                    ]
                   },
                   {
                    "dict": []
                   }
                  ]
                 }
                ],
                [
                 {
                  "str": "'coefficients'"
                 },
                 {
                  "Variable": [
                   {
                    "list": [
                     {
                      "str": "'names'"
                     }
                    ]
                   },
                   {
                    "list": [
                     {
                      "float": "95.0"
                     },
                     {
                      "float": "-96.25"
                     },
                     {
                      "float": "97.5"
                     },
                     {
                      "float": "-98.75"
                     },
                     {
                      "float": "100.0"
                     },
                     {
                      "float": "-101.25"
                     },
                     {
                      "float": "102.5"
                     },
                     {
                      "float": "-103.75"
                     }
                    ]
                   },
                   {
                    "dict": []
                   }
                  ]
                 }
                ]
               ]
              },
              {
               "dict": [
                [
                 {
                  "str": "'formula'"
                 },
                 {
                  "str": "'E = A11 + A12 * R + A13 * C + A14 * R * C; N = A21 + A22 * R + A23 * C + A24 * R * C'"
                 }
                ],
                [
                 {
                  "str": "'E'"
                 },
                 {
                  "str": "'easting'"
                 }
                ],
                [
                 {
                  "str": "'N'"
                 },
                 {
                  "str": "'northing'"
                 }
                ],
                [
                 {
                  "str": "'R'"
                 },
                 {
                  "str": "'row (1-based)'"
                 }
                ],
                [
                 {
                  "str": "'C'"
                 },
                 {
                  "str": "'column (1-based)'"
                 }
                ]
               ]
              }
             ]
            }
           ],
           [
            {
             "str": "'image_to_projected'"
            },
            {
             "Group": [
              "/conversion_coefficients/image_to_projected",
              null,
              {
               "dict": [
                [
                 {
                  "str": "'names'"
                 },
                 {
                  "Variable": [
                   {
                    "list": [
                     {
                      "str": "'names'"
                     }
                    ]
                   },
                   {
                    "list": [
                     {
                      "str": "'B11'"
                     },
                     {
                      "str": "'B12'"
                     },
                     {
                      "str": "'B13'"
                     },
                     {
                      "str": "'B14'"
                     },
                     {
                      "str": "'B21'"
                     },
                     {
                      "str": "'B22'"
                     },
                     {
                      "str": "'B23'"
                     },
                     {
                      "str": "'B24'"
                     }
                    ]
                   },
                   {
                    "dict": []
                   }
                  ]
                 }
                ],
                [
                 {
                  "str": "'coefficients'"
                 },
                 {
                  "Variable": [
                   {
                    "list": [
                     {
                      "str": "'names'"
                     }
                    ]
                   },
                   {
                    "list": [
                     {
                      "float": "105.0"
                     },
                     {
                      "float": "-106.25"
                     },
                     {
                      "float": "107.5"
                     },
                     {
                      "float": "-108.75"
                     },
                     {
                      "float": "110.0"
                     },
                     {
                      "float": "-111.25"
                     },
                     {
                      "float": "112.5"
                     },
                     {
                      "float": "-113.75"
                     }
                    ]
                   },
                   {
                    "dict": []
                   }
                  ]
                 }
                ]
               ]
              },
              {
               "dict": [
                [
                 {
                  "str": "'formula'"
                 },
                 {
                  "str": "'R = B11 + B12 * E + B13 * N + B14 * E * N; C = B21 + B22 * E + B23 * N + B24 * E * N'"
                 }
                ],
                [
                 {
                  "str": "'E'"
                 },
                 {
                  "str": "'easting'"
                 }
                ],
                [
                 {
                  "str": "'N'"
                 },
                 {
                  "str": "'northing'"
                 }
                ],
                [
                 {
                  "str": "'R'"
                 },
                 {
                  "str": "'row (1-based)'"
                 }
                ],
                [
                 {
                  "str": "'C'"
                 },
                 {
                  "str": "'column (1-based)'"
                 }
                ]
               ]
              }
             ]
            }
           ]
          ]
         },
         {
          "dict": []
         }
        ]
       }
      ]
     ]
    },
    {
     "dict": []
    }
   ]
  }
 },
 "parsed/blank_corner": {
  "returns": {
   "Group": [
    "/",
    null,
    {
     "dict": [
      [
       {
        "str": "'general_information'"
       },
       {
        "Group": [
         "/general_information",
         null,
         {
          "dict": [
           [
            {
             "str": "'inter_line_distance_in_output_scene'"
            },
            {
             "Variable": [
              {
               "tuple": []
              },
              {
               "float": "-13.75"
              },
              {
               "dict": [
                [
                 {
                  "str": "'units'"
                 },
                 {
                  "str": "'m'"
                 }
                ]
               ]
              }
             ]
            }
           ],
           [
            {
             "str": "'inter_pixel_distance_in_output_scene'"
            },
            {
             "Variable": [
              {
               "tuple": []
              },
              {
               "float": "15.0"
              },
              {
               "dict": [
                [
                 {
                  "str": "'units'"
                 },
                 {
                  "str": "'m'"
                 }
                ]
               ]
              }
             ]
            }
           ],
           [
            {
             "str": "'angle_between_projection_aixs_from_true_north_at_processed_scene_center'"
            },
            {
             "Variable": [
              {
               "tuple": []
              },
              {
               "float": "-16.25"
              },
              {
               "dict": [
                [
                 {
                  "str": "'units'"
                 },
                 {
                  "str": "'deg'"
                 }
                ]
               ]
              }
             ]
            }
           ],
           [
            {
             "str": "'actual_platform_orbital_inclination'"
            },
            {
             "Variable": [
              {
               "tuple": []
              },
              {
               "float": "17.5"
              },
              {
               "dict": [
                [
                 {
                  "str": "'units'"
                 },
                 {
                  "str": "'deg'"
                 }
                ]
               ]
              }
             ]
            }
           ],
           [
            {
             "str": "'actual_ascending_node'"
            },
            {
             "Variable": [
              {
               "tuple": []
              },
              {
               "float": "-18.75"
              },
              {
               "dict": [
                [
                 {
                  "str": "'units'"
                 },
                 {
                  "str": "'deg'"
                 }
                ]
               ]
              }
             ]
            }
           ],
           [
            {
             "str": "'distance_of_platform_at_input_scene_center_from_geocenter'"
            },
            {
             "Variable": [
              {
               "tuple": []
              },
              {
               "float": "20.0"
              },
              {
               "dict": [
                [
                 {
                  "str": "'units'"
                 },
                 {
                  "str": "'m'"
                 }
                ]
               ]
              }
             ]
            }
           ],
           [
            {
             "str": "'geodetic_altitude_of_the_platform_relative_to_the_ellipsoid'"
            },
            {
             "Variable": [
              {
               "tuple": []
              },
              {
               "float": "-21.25"
              },
              {
               "dict": [
                [
                 {
                  "str": "'units'"
                 },
                 {
                  "str": "'m'"
                 }
                ]
               ]
              }
             ]
            }
           ],
           [
            {
             "str": "'actual_ground_speed_at_nadir_at_input_scene_center_time'"
            },
            {
             "Variable": [
              {
               "tuple": []
              },
              {
               "float": "22.5"
              },
              {
               "dict": [
                [
                 {
                  "str": "'units'"
                 },
                 {
                  "str": "'m/s'"
                 }
                ]
               ]
              }
             ]
            }
           ],
           [
            {
             "str": "'platform_headings'"
            },
            {
             "Variable": [
              {
               "tuple": []
              },
              {
               "float": "-23.75"
              },
              {
               "dict": [
                [
                 {
                  "str": "'units'"
                 },
                 {
                  "str": "'deg'"
                 }
                ]
               ]
              }
             ]
            }
           ]
          ]
         },
         {
          "dict": [
           [
            {
             "str": "'map_projection_type'"
            },
            {
             "str": "'text 8'"
            }
           ],
           [
            {
             "str": "'n_columns'"
            },
            {
             "int": "63"
            }
           ],
           [
            {
             "str": "'n_rows'"
            },
            {
             "int": "70"
            }
           ]
          ]
         }
        ]
       }
      ],
      [
       {
        "str": "'ellipsoid_parameters'"
       },
       {
        "Group": [
         "/ellipsoid_parameters",
         null,
         {
          "dict": [
           [
            {
             "str": "'semimajor_axis'"
            },
            {
             "Variable": [
              {
               "tuple": []
              },
              {
               "float": "-26.25"
              },
              {
               "dict": [
                [
                 {
                  "str": "'units'"
                 },
                 {
                  "str": "'m'"
                 }
                ]
               ]
              }
             ]
            }
           ],
           [
            {
             "str": "'semiminor_axis'"
            },
            {
             "Variable": [
              {
               "tuple": []
              },
              {
               "float": "27.5"
              },
              {
               "dict": [
                [
                 {
                  "str": "'units'"
                 },
                 {
                  "str": "'m'"
                 }
                ]
               ]
              }
             ]
            }
           ]
          ]
         },
         {
          "dict": [
           [
            {
             "str": "'reference_ellipsoid'"
            },
            {
             "str": "'text 20'"
            }
           ]
          ]
         }
        ]
       }
      ],
      [
       {
        "str": "'projection'"
       },
       {
        "Group": [
         "/projection",
         null,
         {
          "dict": [
           [
            {
             "str": "'center_of_projection'"
            },
            {
             "Group": [
              "/projection/center_of_projection",
              null,
              {
               "dict": [
                [
                 {
                  "str": "'longitude'"
                 },
                 {
                  "Variable": [
                   {
                    "tuple": []
                   },
                   {
                    "float": "42.5"
                   },
                   {
                    "dict": [
                     [
                      {
                       "str": "'units'"
                      },
                      {
                       "str": "'deg'"
                      }
                     ]
                    ]
                   }
                  ]
                 }
                ],
                [
                 {
                  "str": "'latitude'"
                 },
                 {
                  "Variable": [
                   {
                    "tuple": []
                   },
                   {
                    "float": "-43.75"
                   },
                   {
                    "dict": [
                     [
                      {
                       "str": "'units'"
                      },
                      {
                       "str": "'deg'"
                      }
                     ]
                    ]
                   }
                  ]
                 }
                ]
               ]
              },
              {
               "dict": []
              }
             ]
            }
           ]
          ]
         },
         {
          "dict": [
           [
            {
             "str": "'type'"
            },
            {
             "str": "'text 30'"
            }
           ],
           [
            {
             "str": "'zone_number'"
            },
            {
             "str": "'text'"
            }
           ],
           [
            {
             "str": "'scale_factor'"
            },
            {
             "float": "47.5"
            }
           ]
          ]
         }
        ]
       }
      ],
      [
       {
        "str": "'corner_points'"
       },
       {
        "Group": [
         "/corner_points",
         null,
         {
          "dict": [
           [
            {
             "str": "'projected'"
            },
            {
             "Group": [
              "/corner_points/projected",
              null,
              {
               "dict": [
                [
                 {
                  "str": "'corner'"
                 },
                 {
                  "Variable": [
                   {
                    "list": [
                     {
                      "str": "'corner'"
                     }
                    ]
                   },
                   {
                    "list": [
                     {
                      "str": "'top_left'"
                     },
                     {
                      "str": "'top_right'"
                     },
                     {
                      "str": "'bottom_right'"
                     },
                     {
                      "str": "'bottom_left'"
                     }
                    ]
                   },
                   {
                    "dict": []
                   }
                  ]
                 }
                ],
                [
                 {
                  "str": "'northing'"
                 },
                 {
                  "Variable": [
                   {
                    "list": [
                     {
                      "str": "'corner'"
                     }
                    ]
                   },
                   {
                    "list": [
                     {
                      "float": "70.0"
                     },
                     {
                      "float": "nan"
                     },
                     {
                      "float": "72.5"
                     },
                     {
                      "float": "75.0"
                     }
                    ]
                   },
                   {
                    "dict": [
                     [
                      {
                       "str": "'units'"
                      },
                      {
                       "str": "'km'"
                      }
                     ]
                    ]
                   }
                  ]
                 }
                ],
                [
                 {
                  "str": "'easting'"
                 },
                 {
                  "Variable": [
                   {
                    "list": [
                     {
                      "str": "'corner'"
                     }
                    ]
                   },
                   {
                    "list": [
                     {
                      "float": "-71.25"
                     },
                     {
                      "float": "nan"
                     },
                     {
                      "float": "-73.75"
                     },
                     {
                      "float": "-76.25"
                     }
                    ]
                   },
                   {
                    "dict": [
                     [
                      {
                       "str": "'units'"
                      },
                      {
                       "str": "'km'"
                      }
                     ]
                    ]
                   }
                  ]
                 }
                ]
               ]
              },
              {
               "dict": []
              }
             ]
            }
           ],
           [
            {
             "str": "'geographic'"
            },
            {
             "Group": [
              "/corner_points/geographic",
              null,
              {
               "dict": [
                [
                 {
                  "str": "'corner'"
                 },
                 {
                  "Variable": [
                   {
                    "list": [
                     {
                      "str": "'corner'"
                     }
                    ]
                   },
                   {
                    "list": [
                     {
                      "str": "'top_left'"
                     },
                     {
                      "str": "'top_right'"
                     },
                     {
                      "str": "'bottom_right'"
                     },
                     {
                      "str": "'bottom_left'"
                     }
                    ]
                   },
                   {
                    "dict": []
                   }
                  ]
                 }
                ],
                [
                 {
                  "str": "'latitude'"
                 },
                 {
                  "Variable": [
                   {
                    "list": [
                     {
                      "str": "'corner'"
                     }
                    ]
                   },
                   {
                    "list": [
                     {
                      "float": "77.5"
                     },
                     {
                      "float": "80.0"
                     },
                     {
                      "float": "82.5"
                     },
                     {
                      "float": "85.0"
                     }
                    ]
                   },
                   {
                    "dict": [
                     [
                      {
                       "str": "'units'"
                      },
                      {
                       "str": "'deg'"
                      }
                     ]
                    ]
                   }
                  ]
                 }
                ],
                [
                 {
                  "str": "'longitude'"
                 },
                 {
                  "Variable": [
                   {
                    "list": [
                     {
                      "str": "'corner'"
                     }
                    ]
                   },
                   {
                    "list": [
                     {
                      "float": "-78.75"
                     },
                     {
                      "float": "-81.25"
                     },
                     {
                      "float": "-83.75"
                     },
                     {
                      "float": "-86.25"
                     }
                    ]
                   },
                   {
                    "dict": [
                     [
                      {
                       "str": "'units'"
                      },
                      {
                       "str": "'deg'"
                      }
                     ]
                    ]
                   }
                  ]
                 }
                ]
               ]
              },
              {
               "dict": []
              }
             ]
            }
           ]
          ]
         },
         {
          "dict": []
         }
        ]
       }
      ],
      [
       {
        "str": "'conversion_coefficients'"
       },
       {
        "Group": [
         "/conversion_coefficients",
         null,
         {
          "dict": [
           [
            {
             "str": "'projected_to_image'"
            },
            {
             "Group": [
              "/conversion_coefficients/projected_to_image",
              null,
              {
               "dict": [
                [
                 {
                  "str": "'names'"
                 },
                 {
                  "Variable": [
                   {
                    "list": [
                     {
                      "str": "'names'"
                     }
                    ]
                   },
                   {
                    "list": [
                     {
                      "str": "'A11'"
                     },
                     {
                      "str": "'A12'"
                     },
                     {
                      "str": "'A13'"
                     },
                     {
                      "str": "'A14'"
                     },
                     {
                      "str": "'A21'"
                     },
                     {
                      "str": "'A22'"
                     },
                     {
                      "str": "'A23'"
                     },
                     {
                      "str": "'A24'"
                     }
                    ]
                   },
                   {
                    "dict": []
                   }
                  ]
                 }
                ],
                [
                 {
                  "str": "'coefficients'"
                 },
                 {
                  "Variable": [
                   {
                    "list": [
                     {
                      "str": "'names'"
                     }
                    ]
                   },
                   {
                    "list": [
                     {
                      "float": "92.5"
                     },
                     {
                      "float": "-93.75"
                     },
                     {
                      "float": "95.0"
                     },
                     {
                      "float": "-96.25"
                     },
                     {
                      "float": "97.5"
                     },
                     {
                      "float": "-98.75"
                     },
                     {
                      "float": "100.0"
                     },
                     {
                      "float": "-101.25"
                     }
                    ]
                   },
                   {
                    "dict": []
                   }
                  ]
                 }
                ]
               ]
              },
              {
               "dict": [
                [
                 {
                  "str": "'formula'"
                 },
                 {
                  "str": "'E = A11 + A12 * R + A13 * C + A14 * R * C; N = A21 + A22 * R + A23 * C + A24 * R * C'"
                 }
                ],
                [
                 {
                  "str": "'E'"
                 },
                 {
                  "str": "'easting'"
                 }
                ],
                [
                 {
                  "str": "'N'"
                 },
                 {
                  "str": "'northing'"
                 }
                ],
                [
                 {
                  "str": "'R'"
                 },
                 {
                  "str": "'row (1-based)'"
                 }
                ],
                [
                 {
                  "str": "'C'"
                 },
                 {
                  "str": "'column (1-based)'"
                 }
                ]
               ]
              }
             ]
            }
           ],
           [
            {
             "str": "'image_to_projected'"
            },
            {
             "Group": [
              "/conversion_coefficients/image_to_projected",
              null,
              {
               "dict": [
                [
                 {
                  "str": "'names'"
                 },
                 {
                  "Variable": [
                   {
                    "list": [
                     {
                      "str": "'names'"
                     }
                    ]
                   },
                   {
                    "list": [
                     {
                      "str": "'B11'"
                     },
                     {
                      "str": "'B12'"
                     },
                     {
                      "str": "'B13'"
                     },
                     {
                      "str": "'B14'"
                     },
                     {
                      "str": "'B21'"
                     },
                     {
                      "str": "'B22'"
                     },
                     {
                      "str": "'B23'"
                     },
                     {
                      "str": "'B24'"
                     }
                    ]
                   },
                   {
                    "dict": []
                   }
                  ]
                 }
                ],
                [
                 {
                  "str": "'coefficients'"
                 },
                 {
                  "Variable": [
                   {
                    "list": [
                     {
                      "str": "'names'"
                     }
                    ]
                   },
                   {
                    "list": [
                     {
                      "float": "102.5"
                     },
                     {
                      "float": "-103.75"
                     },
                     {
                      "float": "105.0"
                     },
                     {
                      "float": "-106.25"
                     },
                     {
                      "float": "107.5"
                     },
                     {
                      "float": "-108.75"
                     },
                     {
                      "float": "110.0"
                     },
                     {
                      "float": "-111.25"
                     }
                    ]
                   },
                   {
                    "dict": []
                   }
                  ]
                 }
                ]
               ]
              },
              {
               "dict": [
                [
                 {
                  "str": "'formula'"
                 },
                 {
                  "str": "'R = B11 + B12 * E + B13 * N + B14 * E * N; C = B21 + B22 * E + B23 * N + B24 * E * N'"
                 }
                ],
                [
                 {
                  "str": "'E'"
                 },
                 {
                  "str": "'easting'"
                 }
                ],
                [
                 {
                  "str": "'N'"
                 },
                 {
                  "str": "'northing'"
                 }
                ],
                [
                 {
                  "str": "'R'"
                 },
                 {
                  "str": "'row (1-based)'"
                 }
                ],
                [
                 {
                  "str": "'C'"
                 },
                 {
                  "str": "'column (1-based)'"
                 }
                ]
               ]
              }
             ]
            }
           ]
          ]
         },
         {
          "dict": []
         }
        ]
       }
      ]
     ]
    },
    {
     "dict": []
    }
   ]
  }
 },
 "parsed/bad:blank_designator": {
  "raises": [
   "ValueError",
   "not enough values to unpack (expected 2, got 1)"
  ]
 },
 "filter_map_projection/input_unchanged": true,
 "filter_map_projection/repeatable": true,
 "transform_corner_points/input_unchanged": true,
 "transform_corner_points/repeatable": true,
 "transform_map_projection/input_unchanged": true,
 "transform_map_projection/repeatable": true,
 "filter_map_projection/identity": [
  true,
  true
 ],
 "transform_corner_points/identity": [
  false,
  false,
  true,
  false,
  false,
  false,
  false,
  true,
  [
   "list",
   "list",
   "dict"
  ],
  [
   "list",
   "list",
   "dict"
  ]
 ],
 "transform_corner_points/after_mutation": {
  "dict": [
   [
    {
     "str": "'projected'"
    },
    {
     "dict": [
      [
       {
        "str": "'corner'"
       },
       {
        "tuple": [
         {
          "list": [
           {
            "str": "'corner'"
           }
          ]
         },
         {
          "list": [
           {
            "str": "'top_left'"
           },
           {
            "str": "'top_right'"
           },
           {
            "str": "'bottom_right'"
           },
           {
            "str": "'bottom_left'"
           }
          ]
         },
         {
          "dict": []
         }
        ]
       }
      ],
      [
       {
        "str": "'northing'"
       },
       {
        "tuple": [
         {
          "list": [
           {
            "str": "'corner'"
           }
          ]
         },
         {
          "list": [
           {
            "float": "7.5"
           },
           {
            "float": "7.5"
           },
           {
            "float": "6.5"
           },
           {
            "float": "6.5"
           }
          ]
         },
         {
          "dict": [
           [
            {
             "str": "'units'"
            },
            {
             "str": "'km'"
            }
           ]
          ]
         }
        ]
       }
      ],
      [
       {
        "str": "'easting'"
       },
       {
        "tuple": [
         {
          "list": [
           {
            "str": "'corner'"
           }
          ]
         },
         {
          "list": [
           {
            "float": "10.0"
           },
           {
            "float": "12.0"
           },
           {
            "float": "12.0"
           },
           {
            "float": "10.0"
           }
          ]
         },
         {
          "dict": [
           [
            {
             "str": "'units'"
            },
            {
             "str": "'km'"
            }
           ]
          ]
         }
        ]
       }
      ]
     ]
    }
   ],
   [
    {
     "str": "'geographic'"
    },
    {
     "dict": [
      [
       {
        "str": "'corner'"
       },
       {
        "tuple": [
         {
          "list": [
           {
            "str": "'corner'"
           }
          ]
         },
         {
          "list": [
           {
            "str": "'top_left'"
           },
           {
            "str": "'top_right'"
           },
           {
            "str": "'bottom_right'"
           },
           {
            "str": "'bottom_left'"
           }
          ]
         },
         {
          "dict": []
         }
        ]
       }
      ],
      [
       {
        "str": "'latitude'"
       },
       {
        "tuple": [
         {
          "list": [
           {
            "str": "'corner'"
           }
          ]
         },
         {
          "list": [
           {
            "float": "61.5"
           },
           {
            "float": "61.75"
           },
           {
            "float": "60.5"
           },
           {
            "float": "60.25"
           }
          ]
         },
         {
          "dict": [
           [
            {
             "str": "'units'"
            },
            {
             "str": "'deg'"
            }
           ]
          ]
         }
        ]
       }
      ],
      [
       {
        "str": "'longitude'"
       },
       {
        "tuple": [
         {
          "list": [
           {
            "str": "'corner'"
           }
          ]
         },
         {
          "list": [
           {
            "float": "-10.0"
           },
           {
            "float": "-9.0"
           },
           {
            "float": "nan"
           },
           {
            "float": "-10.5"
           }
          ]
         },
         {
          "dict": [
           [
            {
             "str": "'units'"
            },
            {
             "str": "'deg'"
            }
           ]
          ]
         }
        ]
       }
      ]
     ]
    }
   ]
  ]
 },
 "transform_conversion_coefficients/identity": [
  true,
  false,
  "tuple",
  "tuple"
 ]
}
"""

if __name__ == "__main__":
    if "--record" in sys.argv:
        print(json.dumps(collect(), indent=1, ensure_ascii=True))
    else:
        test_equivalence()
        print(f"ok: {len(json.loads(EXPECTED))} snapshots identical")
