"""Equivalence check for refactoring 2: ceos_alos2.sar_image.metadata.extract_attrs

Run as a script (`python equiv.py`) or with pytest. `python equiv.py --record` prints the
results of the code that is currently importable; EXPECTED below was recorded that way from
the UNCHANGED code (HEAD). The script passes with and without patch.diff applied.
"""
# ---------------------------------------------------------------------------------------
# shared helpers (copied verbatim into every equiv.py so that each script is self-contained)
# ---------------------------------------------------------------------------------------
import dataclasses
import datetime
import hashlib
import math
import pprint
import struct
import sys

import numpy as np
from construct import Struct as _Struct


def norm(obj):
    """Turn results into plain, deterministic, comparable structures (types are kept)."""
    from ceos_alos2.array import Array
    from ceos_alos2.hierarchy import Group, Variable

    if isinstance(obj, BaseException):
        cause = obj.__cause__
        context = obj.__context__
        return (
            "EXC",
            type(obj).__module__ + "." + type(obj).__qualname__,
            str(obj),
            None if cause is None else norm(cause),
            None if context is None else norm(context),
            obj.__suppress_context__,
        )
    if isinstance(obj, Group):
        return (
            "Group",
            obj.path,
            obj.url,
            [(k, norm(v)) for k, v in obj.data.items()],
            norm(obj.attrs),
        )
    if isinstance(obj, Variable):
        return ("Variable", norm(obj.dims), norm(obj.data), norm(obj.attrs))
    if isinstance(obj, Array):
        return (
            "Array",
            type(obj.fs).__name__,
            getattr(obj.fs, "path", None),
            obj.url,
            norm(obj.byte_ranges),
            norm(obj.shape),
            norm(obj.dtype),
            obj.type_code,
            norm(obj.records_per_chunk),
            norm(obj.chunk_offsets),
        )
    if isinstance(obj, np.ndarray):
        return ("ndarray", str(obj.dtype), obj.shape, norm(obj.tolist()))
    if isinstance(obj, np.generic):
        return ("npscalar", str(obj.dtype), norm(obj.item()))
    if isinstance(obj, np.dtype):
        return ("dtype", str(obj))
    if isinstance(obj, dict):
        return (type(obj).__name__, [(norm(k), norm(v)) for k, v in obj.items()])
    if isinstance(obj, (list, tuple)):
        return (type(obj).__name__, [norm(v) for v in obj])
    if isinstance(obj, (set, frozenset)):
        return (type(obj).__name__, sorted(norm(v) for v in obj))
    if isinstance(obj, float):
        return ("float", "nan" if math.isnan(obj) else repr(obj))
    if isinstance(obj, bool) or obj is None:
        return obj
    if isinstance(obj, (int, str, bytes, complex)):
        return (type(obj).__name__, obj)
    if isinstance(obj, (datetime.datetime, datetime.date)):
        return ("datetime", obj.isoformat())
    if dataclasses.is_dataclass(obj):
        return (type(obj).__name__, norm(dataclasses.asdict(obj)))
    return ("repr", type(obj).__name__, repr(obj))


def outcome(func, *args, **kwargs):
    """Result or exception of a call, normalized."""
    try:
        result = func(*args, **kwargs)
    except BaseException as e:  # noqa: B902
        return norm(e)
    return ("OK", norm(result))


class Recorder:
    """Collects named outcomes and compares them with the recorded ones."""

    def __init__(self):
        self.results = {}

    def add(self, name, value):
        assert name not in self.results, name
        text = repr(value)
        if len(text) > 500:
            # long results are compared through a digest (keep the script at a readable size)
            digest = hashlib.sha256(text.encode()).hexdigest()
            text = f"sha256:{digest} length:{len(text)} start:{text[:160]}"
        self.results[name] = text

    def finish(self, expected):
        if "--record" in sys.argv:
            pprint.pprint(self.results, width=100, sort_dicts=False)
            return 0

        missing = set(expected) ^ set(self.results)
        assert not missing, f"cases differ: {sorted(missing)}"
        failed = [name for name, value in self.results.items() if expected[name] != value]
        for name in failed:
            print(f"MISMATCH in {name}:\n  expected: {expected[name]}\n  actual:   {self.results[name]}")
        assert not failed, f"{len(failed)} of {len(expected)} cases differ"
        print(f"all {len(expected)} cases identical to the recorded behaviour")
        return 0


class LoggingFile:
    """File object wrapper that records every request made to the underlying file."""

    def __init__(self, f, log):
        self._f = f
        self._log = log

    def read(self, *args):
        position = self._f.tell()
        data = self._f.read(*args)
        self._log.append(("read", position, args, len(data)))
        return data

    def seek(self, *args):
        self._log.append(("seek", args))
        return self._f.seek(*args)

    def tell(self):
        return self._f.tell()

    def __enter__(self):
        self._log.append(("enter",))
        self._f.__enter__()
        return self

    def __exit__(self, *args):
        self._log.append(("exit", None if args[0] is None else args[0].__name__))
        return self._f.__exit__(*args)


# -- synthetic ALOS-2 image files --------------------------------------------------------


def _walk(struct_, prefix=()):
    """Yield (path, size) of the fixed-size leaves of a construct Struct, in order."""
    for sub in struct_.subcons:
        inner = sub
        while hasattr(inner, "subcon") and not isinstance(inner, _Struct):
            inner = inner.subcon
        if isinstance(inner, _Struct):
            try:
                inner.sizeof()
            except Exception:
                return
            yield from _walk(inner, prefix + (sub.name,))
            continue
        yield prefix + (sub.name,), sub.sizeof()


def field_offsets(struct_):
    offsets = {}
    position = 0
    for path, size in _walk(struct_):
        offsets[".".join(path)] = (position, size)
        position += size
    return offsets, position


def make_file_descriptor(**fields):
    """720 bytes of file descriptor: blank ASCII fields, except those given."""
    from ceos_alos2.sar_image.file_descriptor import file_descriptor_record

    offsets, total = field_offsets(file_descriptor_record)
    assert total == 720, total
    buffer = bytearray(b" " * 720)
    buffer[:12] = struct.pack(">IBBBBI", 1, 50, 192, 18, 18, 720)
    for name, value in fields.items():
        start, size = offsets[name]
        text = str(value).encode("ascii")
        assert len(text) <= size, (name, value)
        buffer[start : start + size] = text.rjust(size) if isinstance(value, int) else text.ljust(size)
    return bytes(buffer)


def make_data_record(kind, sequence_number, record_length, *, record_type=None, seed=0, **fields):
    """A signal (kind=10) or processed (kind=11) data record of `record_length` bytes."""
    from ceos_alos2.sar_image.processed_data import processed_data_record
    from ceos_alos2.sar_image.signal_data import signal_data_record

    record = {10: signal_data_record, 11: processed_data_record}[kind]
    offsets, header_size = field_offsets(record)
    assert record_length >= header_size, header_size

    header_rng = np.random.default_rng(seed)
    data_rng = np.random.default_rng(seed * 1000 + sequence_number)
    buffer = bytearray(record_length)
    # small big-endian numbers everywhere, the same for all the records of a file
    for name, (start, size) in offsets.items():
        if "blanks" in name or name == "palsar_auxiliary_data":
            continue
        buffer[start + size - 1] = int(header_rng.integers(0, 4))
    n_data = record_length - header_size
    buffer[header_size:] = bytes(data_rng.integers(0, 256, n_data, dtype="uint8"))

    defaults = {
        "preamble.record_sequence_number": sequence_number,
        "preamble.first_record_subtype": 50,
        "preamble.record_type": kind if record_type is None else record_type,
        "preamble.second_record_subtype": 18,
        "preamble.third_record_subtype": 20,
        "preamble.record_length": record_length,
        "sar_image_data_line_number": sequence_number - 1,
        "sensor_acquisition_date.year": 2020,
        "sensor_acquisition_date.day_of_year": 123,
        "sensor_acquisition_date.milliseconds": 45_000_000 + 7 * sequence_number,
        "scan_id": 2,
    }
    if kind == 10:
        defaults["sensor_acquisition_date_microseconds"] = 45_000_000_000 + 7000 * sequence_number
    for name, value in (defaults | fields).items():
        start, size = offsets[name]
        buffer[start : start + size] = int(value).to_bytes(size, "big")
    return bytes(buffer), header_size


def make_image_file(kind, n_records, record_length, *, seed=0, descriptor=None, record_fields=None):
    descriptor_fields = {
        "number_of_sar_data_records": n_records,
        "sar_data_record_length": record_length,
        "sar_related_data_in_the_record.number_of_lines_per_dataset": n_records,
        "sar_related_data_in_the_record.number_of_data_groups_per_line": 4,
        "sar_related_data_in_the_record.interleaving_id": "BSQ",
        "prefix_suffix_data_locators.sar_data_format_type_code": "C*8" if kind == 10 else "IU2",
    } | (descriptor or {})
    records = [
        make_data_record(kind, index + 1, record_length, seed=seed, **(record_fields or {}))[0]
        for index in range(n_records)
    ]
    return make_file_descriptor(**descriptor_fields) + b"".join(records)


# ---------------------------------------------------------------------------------------
# the cases
# ---------------------------------------------------------------------------------------
import collections
import copy
import decimal
import fractions
import io as _stdio
import types

from construct import Container


class ItemsOnly:
    """not a mapping, but has what the function needs"""

    def __init__(self, items):
        self._items = items

    def items(self):
        return iter(self._items)


class Weird:
    def __init__(self, equal, nan):
        self.equal = equal
        self.nan = nan

    def __ne__(self, other):
        return not self.equal

    def __eq__(self, other):
        return self.equal

    def __float__(self):
        return float("nan") if self.nan else 1.0

    def __repr__(self):
        return f"Weird({self.equal}, {self.nan})"


def _extract(header):
    from ceos_alos2.sar_image import metadata

    before = norm(header) if not isinstance(header, ItemsOnly) else None
    result = outcome(metadata.extract_attrs, header)
    after = norm(header) if not isinstance(header, ItemsOnly) else None
    return result, before == after


def run(rec):
    from ceos_alos2.sar_image import io, metadata

    nan = float("nan")

    headers = {
        # the cases of the test suite
        "suite-preamble": {"preamble": {}},
        "suite-known": {
            "interleaving_id": "BSQ",
            "number_of_burst_data": 5,
            "number_of_lines_per_burst": 1,
            "number_of_overlap_lines_with_adjacent_bursts": 3,
        },
        "suite-range": {"maximum_data_range_of_pixel": 27},
        "suite-nan": {"maximum_data_range_of_pixel": nan},
        # structure
        "empty": {},
        "unknown-only": {"a": 1, "b": {"c": 2}, "preamble": {"record_type": 192}},
        "nested": {
            "preamble": {"interleaving_id": "no"},
            "x": {"interleaving_id": "BIL", "other": 1},
            "y": {"number_of_lines_per_burst": 7, "maximum_data_range_of_pixel": 255},
        },
        "nested-twice": {"x": {"y": {"interleaving_id": "BIL"}}, "interleaving_id": {"z": 1}},
        "preamble-inside": {"x": {"preamble": 5, "interleaving_id": "BSQ"}},
        "order-kept": {
            "number_of_overlap_lines_with_adjacent_bursts": 1,
            "s": {"number_of_lines_per_burst": 2, "maximum_data_range_of_pixel": 3},
            "number_of_burst_data": 4,
            "interleaving_id": "BSQ",
        },
        "override-nested-last": {"interleaving_id": "top", "s": {"interleaving_id": "nested"}},
        "override-nested-first": {"s": {"interleaving_id": "nested"}, "interleaving_id": "top"},
        "override-missing": {
            "number_of_burst_data": 3,
            "s": {"number_of_burst_data": -1},
            "t": {"valid_range": "kept?"},
        },
        "translated-name-clash": {"valid_range": [1, 2], "maximum_data_range_of_pixel": 9},
        "translated-name-given": {"valid_range": [1, 2]},
        # the markers of missing values
        "all-missing": {
            "interleaving_id": "",
            "maximum_data_range_of_pixel": -1,
            "number_of_burst_data": -1,
            "number_of_lines_per_burst": -1,
            "number_of_overlap_lines_with_adjacent_bursts": -1,
        },
        "interleaving-missing-marker": {"interleaving_id": -1},
        "interleaving-empty-list": {"interleaving_id": []},
        "interleaving-list": {"interleaving_id": ["BSQ"]},
        "interleaving-empty-tuple": {"interleaving_id": ()},
        "interleaving-none": {"interleaving_id": None},
        "interleaving-zero": {"interleaving_id": 0},
        "bursts-zero": {
            "number_of_burst_data": 0,
            "number_of_lines_per_burst": 0.0,
            "number_of_overlap_lines_with_adjacent_bursts": False,
            "maximum_data_range_of_pixel": 0,
        },
        "bursts-float-missing": {
            "number_of_burst_data": -1.0,
            "number_of_lines_per_burst": np.int64(-1),
            "number_of_overlap_lines_with_adjacent_bursts": np.float32(-1),
            "maximum_data_range_of_pixel": -1.0,
        },
        "bursts-odd": {
            "number_of_burst_data": "7",
            "number_of_lines_per_burst": None,
            "number_of_overlap_lines_with_adjacent_bursts": [],
        },
        "bursts-lists": {
            "number_of_burst_data": [1],
            "number_of_lines_per_burst": [-1],
            "number_of_overlap_lines_with_adjacent_bursts": nan,
        },
        "bursts-array": {"number_of_burst_data": np.array([1, -1])},
        "bursts-array1": {"number_of_burst_data": np.array([-1])},
    }
    for index, value in enumerate((
        0, 1, -1, -2, 65535, 2**70, True, False, 0.0, -0.0, 1.5, -1.0, nan, -nan, float("inf"),
        float("-inf"), np.float64("nan"), np.float32(3), np.int16(-1), np.int64(12), np.uint8(255),
        decimal.Decimal("NaN"), decimal.Decimal("-1"), decimal.Decimal("12.5"),
        fractions.Fraction(-1), fractions.Fraction(1, 3), "27", "", None, [], [3], (1,), {}, {"a": 1},
        1j, b"1", np.array(5), np.array([5]), np.array([1, 2]), np.array(nan),
        Weird(True, True), Weird(True, False), Weird(False, True), Weird(False, False),
    )):  # fmt: skip
        label = f"{index}-{type(value).__name__}-{value!r}"
        headers[f"range-{label}"] = {"maximum_data_range_of_pixel": value}
        headers[f"nested-range-{label}"] = {
            "prefix_suffix_data_locators": {"maximum_data_range_of_pixel": value, "other": 1},
            "number_of_burst_data": 2,
        }

    for name, header in headers.items():
        rec.add(name, _extract(header))

    # other kinds of mappings
    full = {
        "preamble": {"record_type": 192},
        "interleaving_id": "BSQ",
        "s": {"maximum_data_range_of_pixel": 10, "number_of_burst_data": -1},
        "t": Container(number_of_lines_per_burst=4),
        "u": collections.OrderedDict(number_of_overlap_lines_with_adjacent_bursts=6),
    }
    rec.add("mapping-dict", _extract(full))
    rec.add("mapping-container", _extract(Container(full)))
    rec.add("mapping-ordered", _extract(collections.OrderedDict(full)))
    rec.add("mapping-proxy", _extract(types.MappingProxyType(full)))
    rec.add("mapping-chainmap", _extract(collections.ChainMap({"interleaving_id": "A"}, full)))
    rec.add("mapping-defaultdict", _extract(collections.defaultdict(list, full)))
    rec.add("mapping-nested-proxy", _extract({"s": types.MappingProxyType({"interleaving_id": 1})}))
    rec.add(
        "mapping-known-proxy",
        _extract({"interleaving_id": types.MappingProxyType({"number_of_burst_data": 1})}),
    )
    rec.add("mapping-items-only", _extract(ItemsOnly(list(full.items()))))
    rec.add(
        "mapping-duplicate-items",
        _extract(
            ItemsOnly(
                [
                    ("interleaving_id", "first"),
                    ("preamble", 1),
                    ("number_of_burst_data", 2),
                    ("interleaving_id", "second"),
                ]
            )
        ),
    )
    rec.add("keys-not-str", _extract({1: 2, (1, 2): {"interleaving_id": "x"}, None: {3: 4}}))
    for name, header in {
        "none": None,
        "list": [("interleaving_id", "BSQ")],
        "str": "interleaving_id",
        "int": 5,
        "items-not-pairs": ItemsOnly([1, 2]),
        "items-unhashable": ItemsOnly([([], 1)]),
        "items-nested-unhashable": ItemsOnly([("s", {"a": 1}), ("t", ItemsOnly([]))]),
    }.items():
        rec.add(f"invalid-{name}", _extract(header))

    # results are fresh objects on every call
    header = {"maximum_data_range_of_pixel": 5, "interleaving_id": ["BSQ"]}
    first, second = metadata.extract_attrs(header), metadata.extract_attrs(header)
    rec.add(
        "fresh",
        (
            type(first).__name__,
            first is second,
            first["valid_range"] is second["valid_range"],
            first["interleaving_id"] is header["interleaving_id"],
        ),
    )
    first["valid_range"].append(1)
    first["new"] = 1
    rec.add("fresh-after-mutation", outcome(metadata.extract_attrs, header))

    # headers parsed from (synthetic) files, through transform_metadata as well
    from ceos_alos2.sar_image.processed_data import processed_data_record

    length = field_offsets(processed_data_record)[1] + 16
    descriptors = {
        "blank": {},
        "level15": {"prefix_suffix_data_locators.maximum_data_range_of_pixel": 65535},
        "zero-range": {"prefix_suffix_data_locators.maximum_data_range_of_pixel": 0},
        "specan": {
            "prefix_suffix_data_locators.number_of_burst_data": 32,
            "prefix_suffix_data_locators.number_of_lines_per_burst": 61,
            "scansar_burst_data_information.number_of_overlap_lines_with_adjacent_bursts": 5,
            "sar_related_data_in_the_record.interleaving_id": "BIL",
        },
        "no-interleaving": {"sar_related_data_in_the_record.interleaving_id": ""},
        "everything": {
            "prefix_suffix_data_locators.maximum_data_range_of_pixel": 255,
            "prefix_suffix_data_locators.number_of_burst_data": 0,
            "prefix_suffix_data_locators.number_of_lines_per_burst": 1,
            "scansar_burst_data_information.number_of_overlap_lines_with_adjacent_bursts": 9999,
        },
    }
    for name, descriptor in descriptors.items():
        content = make_image_file(11, 2, length, seed=2, descriptor=descriptor)
        header, lines = io.read_metadata(_stdio.BytesIO(content), 2)
        rec.add(f"file-{name}", _extract(copy.deepcopy(header)))
        rec.add(f"file-{name}-transform", outcome(metadata.transform_metadata, header, lines))

    rec.add(
        "names",
        sorted(
            name
            for name in (
                "extract_format_type extract_shape extract_attrs apply_overrides deduplicate_attrs"
                " transform_line_metadata dtypes transform_metadata math np keyfilter merge_with"
                " valfilter valmap compose_left curry pipe cons first second apply_to_items dissoc"
                " keysplit as_group remove_spares separate_attrs remove_nesting_layer rename starcall"
            ).split()
            if hasattr(metadata, name)
        ),
    )


# recorded with the UNCHANGED code (python equiv.py --record)
EXPECTED = {'suite-preamble': "(('OK', ('dict', [])), True)",
 'suite-known': "(('OK', ('dict', [(('str', 'interleaving_id'), ('str', 'BSQ')), (('str', "
                "'number_of_burst_data'), ('int', 5)), (('str', 'number_of_lines_per_burst'), "
                "('int', 1)), (('str', 'number_of_overlap_lines_with_adjacent_bursts'), ('int', "
                '3))])), True)',
 'suite-range': "(('OK', ('dict', [(('str', 'valid_range'), ('list', [('int', 0), ('int', "
                '27)]))])), True)',
 'suite-nan': "(('OK', ('dict', [])), True)",
 'empty': "(('OK', ('dict', [])), True)",
 'unknown-only': "(('OK', ('dict', [])), True)",
 'nested': "(('OK', ('dict', [(('str', 'interleaving_id'), ('str', 'BIL')), (('str', "
           "'number_of_lines_per_burst'), ('int', 7)), (('str', 'valid_range'), ('list', [('int', "
           "0), ('int', 255)]))])), True)",
 'nested-twice': "(('OK', ('dict', [])), True)",
 'preamble-inside': "(('OK', ('dict', [(('str', 'interleaving_id'), ('str', 'BSQ'))])), True)",
 'order-kept': "(('OK', ('dict', [(('str', 'number_of_overlap_lines_with_adjacent_bursts'), "
               "('int', 1)), (('str', 'number_of_lines_per_burst'), ('int', 2)), (('str', "
               "'valid_range'), ('list', [('int', 0), ('int', 3)])), (('str', "
               "'number_of_burst_data'), ('int', 4)), (('str', 'interleaving_id'), ('str', "
               "'BSQ'))])), True)",
 'override-nested-last': "(('OK', ('dict', [(('str', 'interleaving_id'), ('str', 'nested'))])), "
                         'True)',
 'override-nested-first': "(('OK', ('dict', [(('str', 'interleaving_id'), ('str', 'top'))])), "
                          'True)',
 'override-missing': "(('OK', ('dict', [])), True)",
 'translated-name-clash': "(('OK', ('dict', [(('str', 'valid_range'), ('list', [('int', 0), "
                          "('int', 9)]))])), True)",
 'translated-name-given': "(('OK', ('dict', [])), True)",
 'all-missing': "(('OK', ('dict', [(('str', 'interleaving_id'), ('str', ''))])), True)",
 'interleaving-missing-marker': "(('OK', ('dict', [(('str', 'interleaving_id'), ('int', -1))])), "
                                'True)',
 'interleaving-empty-list': "(('OK', ('dict', [])), True)",
 'interleaving-list': "(('OK', ('dict', [(('str', 'interleaving_id'), ('list', [('str', "
                      "'BSQ')]))])), True)",
 'interleaving-empty-tuple': "(('OK', ('dict', [(('str', 'interleaving_id'), ('tuple', []))])), "
                             'True)',
 'interleaving-none': "(('OK', ('dict', [(('str', 'interleaving_id'), None)])), True)",
 'interleaving-zero': "(('OK', ('dict', [(('str', 'interleaving_id'), ('int', 0))])), True)",
 'bursts-zero': "(('OK', ('dict', [(('str', 'number_of_burst_data'), ('int', 0)), (('str', "
                "'number_of_lines_per_burst'), ('float', '0.0')), (('str', "
                "'number_of_overlap_lines_with_adjacent_bursts'), False), (('str', 'valid_range'), "
                "('list', [('int', 0), ('int', 0)]))])), True)",
 'bursts-float-missing': "(('OK', ('dict', [])), True)",
 'bursts-odd': "(('OK', ('dict', [(('str', 'number_of_burst_data'), ('str', '7')), (('str', "
               "'number_of_lines_per_burst'), None)])), True)",
 'bursts-lists': "(('OK', ('dict', [(('str', 'number_of_burst_data'), ('list', [('int', 1)])), "
                 "(('str', 'number_of_lines_per_burst'), ('list', [('int', -1)])), (('str', "
                 "'number_of_overlap_lines_with_adjacent_bursts'), ('float', 'nan'))])), True)",
 'bursts-array': "(('EXC', 'builtins.ValueError', 'The truth value of an array with more than one "
                 "element is ambiguous. Use a.any() or a.all()', None, None, False), True)",
 'bursts-array1': "(('OK', ('dict', [])), True)",
 'range-0-int-0': "(('OK', ('dict', [(('str', 'valid_range'), ('list', [('int', 0), ('int', "
                  '0)]))])), True)',
 'nested-range-0-int-0': "(('OK', ('dict', [(('str', 'valid_range'), ('list', [('int', 0), ('int', "
                         "0)])), (('str', 'number_of_burst_data'), ('int', 2))])), True)",
 'range-1-int-1': "(('OK', ('dict', [(('str', 'valid_range'), ('list', [('int', 0), ('int', "
                  '1)]))])), True)',
 'nested-range-1-int-1': "(('OK', ('dict', [(('str', 'valid_range'), ('list', [('int', 0), ('int', "
                         "1)])), (('str', 'number_of_burst_data'), ('int', 2))])), True)",
 'range-2-int--1': "(('OK', ('dict', [])), True)",
 'nested-range-2-int--1': "(('OK', ('dict', [(('str', 'number_of_burst_data'), ('int', 2))])), "
                          'True)',
 'range-3-int--2': "(('OK', ('dict', [(('str', 'valid_range'), ('list', [('int', 0), ('int', "
                   '-2)]))])), True)',
 'nested-range-3-int--2': "(('OK', ('dict', [(('str', 'valid_range'), ('list', [('int', 0), "
                          "('int', -2)])), (('str', 'number_of_burst_data'), ('int', 2))])), True)",
 'range-4-int-65535': "(('OK', ('dict', [(('str', 'valid_range'), ('list', [('int', 0), ('int', "
                      '65535)]))])), True)',
 'nested-range-4-int-65535': "(('OK', ('dict', [(('str', 'valid_range'), ('list', [('int', 0), "
                             "('int', 65535)])), (('str', 'number_of_burst_data'), ('int', 2))])), "
                             'True)',
 'range-5-int-1180591620717411303424': "(('OK', ('dict', [(('str', 'valid_range'), ('list', "
                                       "[('int', 0), ('int', 1180591620717411303424)]))])), True)",
 'nested-range-5-int-1180591620717411303424': "(('OK', ('dict', [(('str', 'valid_range'), ('list', "
                                              "[('int', 0), ('int', 1180591620717411303424)])), "
                                              "(('str', 'number_of_burst_data'), ('int', 2))])), "
                                              'True)',
 'range-6-bool-True': "(('OK', ('dict', [(('str', 'valid_range'), ('list', [('int', 0), "
                      'True]))])), True)',
 'nested-range-6-bool-True': "(('OK', ('dict', [(('str', 'valid_range'), ('list', [('int', 0), "
                             "True])), (('str', 'number_of_burst_data'), ('int', 2))])), True)",
 'range-7-bool-False': "(('OK', ('dict', [(('str', 'valid_range'), ('list', [('int', 0), "
                       'False]))])), True)',
 'nested-range-7-bool-False': "(('OK', ('dict', [(('str', 'valid_range'), ('list', [('int', 0), "
                              "False])), (('str', 'number_of_burst_data'), ('int', 2))])), True)",
 'range-8-float-0.0': "(('OK', ('dict', [(('str', 'valid_range'), ('list', [('int', 0), ('float', "
                      "'0.0')]))])), True)",
 'nested-range-8-float-0.0': "(('OK', ('dict', [(('str', 'valid_range'), ('list', [('int', 0), "
                             "('float', '0.0')])), (('str', 'number_of_burst_data'), ('int', "
                             '2))])), True)',
 'range-9-float--0.0': "(('OK', ('dict', [(('str', 'valid_range'), ('list', [('int', 0), ('float', "
                       "'-0.0')]))])), True)",
 'nested-range-9-float--0.0': "(('OK', ('dict', [(('str', 'valid_range'), ('list', [('int', 0), "
                              "('float', '-0.0')])), (('str', 'number_of_burst_data'), ('int', "
                              '2))])), True)',
 'range-10-float-1.5': "(('OK', ('dict', [(('str', 'valid_range'), ('list', [('int', 0), ('float', "
                       "'1.5')]))])), True)",
 'nested-range-10-float-1.5': "(('OK', ('dict', [(('str', 'valid_range'), ('list', [('int', 0), "
                              "('float', '1.5')])), (('str', 'number_of_burst_data'), ('int', "
                              '2))])), True)',
 'range-11-float--1.0': "(('OK', ('dict', [])), True)",
 'nested-range-11-float--1.0': "(('OK', ('dict', [(('str', 'number_of_burst_data'), ('int', "
                               '2))])), True)',
 'range-12-float-nan': "(('OK', ('dict', [])), True)",
 'nested-range-12-float-nan': "(('OK', ('dict', [(('str', 'number_of_burst_data'), ('int', 2))])), "
                              'True)',
 'range-13-float-nan': "(('OK', ('dict', [])), True)",
 'nested-range-13-float-nan': "(('OK', ('dict', [(('str', 'number_of_burst_data'), ('int', 2))])), "
                              'True)',
 'range-14-float-inf': "(('OK', ('dict', [(('str', 'valid_range'), ('list', [('int', 0), ('float', "
                       "'inf')]))])), True)",
 'nested-range-14-float-inf': "(('OK', ('dict', [(('str', 'valid_range'), ('list', [('int', 0), "
                              "('float', 'inf')])), (('str', 'number_of_burst_data'), ('int', "
                              '2))])), True)',
 'range-15-float--inf': "(('OK', ('dict', [(('str', 'valid_range'), ('list', [('int', 0), "
                        "('float', '-inf')]))])), True)",
 'nested-range-15-float--inf': "(('OK', ('dict', [(('str', 'valid_range'), ('list', [('int', 0), "
                               "('float', '-inf')])), (('str', 'number_of_burst_data'), ('int', "
                               '2))])), True)',
 'range-16-float64-np.float64(nan)': "(('OK', ('dict', [])), True)",
 'nested-range-16-float64-np.float64(nan)': "(('OK', ('dict', [(('str', 'number_of_burst_data'), "
                                            "('int', 2))])), True)",
 'range-17-float32-np.float32(3.0)': "(('OK', ('dict', [(('str', 'valid_range'), ('list', [('int', "
                                     "0), ('npscalar', 'float32', ('float', '3.0'))]))])), True)",
 'nested-range-17-float32-np.float32(3.0)': "(('OK', ('dict', [(('str', 'valid_range'), ('list', "
                                            "[('int', 0), ('npscalar', 'float32', ('float', "
                                            "'3.0'))])), (('str', 'number_of_burst_data'), ('int', "
                                            '2))])), True)',
 'range-18-int16-np.int16(-1)': "(('OK', ('dict', [])), True)",
 'nested-range-18-int16-np.int16(-1)': "(('OK', ('dict', [(('str', 'number_of_burst_data'), "
                                       "('int', 2))])), True)",
 'range-19-int64-np.int64(12)': "(('OK', ('dict', [(('str', 'valid_range'), ('list', [('int', 0), "
                                "('npscalar', 'int64', ('int', 12))]))])), True)",
 'nested-range-19-int64-np.int64(12)': "(('OK', ('dict', [(('str', 'valid_range'), ('list', "
                                       "[('int', 0), ('npscalar', 'int64', ('int', 12))])), "
                                       "(('str', 'number_of_burst_data'), ('int', 2))])), True)",
 'range-20-uint8-np.uint8(255)': "(('OK', ('dict', [(('str', 'valid_range'), ('list', [('int', 0), "
                                 "('npscalar', 'uint8', ('int', 255))]))])), True)",
 'nested-range-20-uint8-np.uint8(255)': "(('OK', ('dict', [(('str', 'valid_range'), ('list', "
                                        "[('int', 0), ('npscalar', 'uint8', ('int', 255))])), "
                                        "(('str', 'number_of_burst_data'), ('int', 2))])), True)",
 "range-21-Decimal-Decimal('NaN')": "(('OK', ('dict', [])), True)",
 "nested-range-21-Decimal-Decimal('NaN')": "(('OK', ('dict', [(('str', 'number_of_burst_data'), "
                                           "('int', 2))])), True)",
 "range-22-Decimal-Decimal('-1')": "(('OK', ('dict', [])), True)",
 "nested-range-22-Decimal-Decimal('-1')": "(('OK', ('dict', [(('str', 'number_of_burst_data'), "
                                          "('int', 2))])), True)",
 "range-23-Decimal-Decimal('12.5')": "(('OK', ('dict', [(('str', 'valid_range'), ('list', [('int', "
                                     '0), (\'repr\', \'Decimal\', "Decimal(\'12.5\')")]))])), '
                                     'True)',
 "nested-range-23-Decimal-Decimal('12.5')": "(('OK', ('dict', [(('str', 'valid_range'), ('list', "
                                            "[('int', 0), ('repr', 'Decimal', "
                                            '"Decimal(\'12.5\')")])), ((\'str\', '
                                            "'number_of_burst_data'), ('int', 2))])), True)",
 'range-24-Fraction-Fraction(-1, 1)': "(('OK', ('dict', [])), True)",
 'nested-range-24-Fraction-Fraction(-1, 1)': "(('OK', ('dict', [(('str', 'number_of_burst_data'), "
                                             "('int', 2))])), True)",
 'range-25-Fraction-Fraction(1, 3)': "(('OK', ('dict', [(('str', 'valid_range'), ('list', [('int', "
                                     "0), ('repr', 'Fraction', 'Fraction(1, 3)')]))])), True)",
 'nested-range-25-Fraction-Fraction(1, 3)': "(('OK', ('dict', [(('str', 'valid_range'), ('list', "
                                            "[('int', 0), ('repr', 'Fraction', 'Fraction(1, "
                                            "3)')])), (('str', 'number_of_burst_data'), ('int', "
                                            '2))])), True)',
 "range-26-str-'27'": "(('EXC', 'builtins.TypeError', 'must be real number, not str', None, None, "
                      'False), True)',
 "nested-range-26-str-'27'": "(('EXC', 'builtins.TypeError', 'must be real number, not str', None, "
                             'None, False), True)',
 "range-27-str-''": "(('EXC', 'builtins.TypeError', 'must be real number, not str', None, None, "
                    'False), True)',
 "nested-range-27-str-''": "(('EXC', 'builtins.TypeError', 'must be real number, not str', None, "
                           'None, False), True)',
 'range-28-NoneType-None': "(('EXC', 'builtins.TypeError', 'must be real number, not NoneType', "
                           'None, None, False), True)',
 'nested-range-28-NoneType-None': "(('EXC', 'builtins.TypeError', 'must be real number, not "
                                  "NoneType', None, None, False), True)",
 'range-29-list-[]': "(('EXC', 'builtins.TypeError', 'must be real number, not list', None, None, "
                     'False), True)',
 'nested-range-29-list-[]': "(('EXC', 'builtins.TypeError', 'must be real number, not list', None, "
                            'None, False), True)',
 'range-30-list-[3]': "(('EXC', 'builtins.TypeError', 'must be real number, not list', None, None, "
                      'False), True)',
 'nested-range-30-list-[3]': "(('EXC', 'builtins.TypeError', 'must be real number, not list', "
                             'None, None, False), True)',
 'range-31-tuple-(1,)': "(('EXC', 'builtins.TypeError', 'must be real number, not tuple', None, "
                        'None, False), True)',
 'nested-range-31-tuple-(1,)': "(('EXC', 'builtins.TypeError', 'must be real number, not tuple', "
                               'None, None, False), True)',
 'range-32-dict-{}': "(('OK', ('dict', [])), True)",
 'nested-range-32-dict-{}': "(('EXC', 'builtins.TypeError', 'must be real number, not dict', None, "
                            'None, False), True)',
 "range-33-dict-{'a': 1}": "(('OK', ('dict', [])), True)",
 "nested-range-33-dict-{'a': 1}": "(('EXC', 'builtins.TypeError', 'must be real number, not dict', "
                                  'None, None, False), True)',
 'range-34-complex-1j': "(('EXC', 'builtins.TypeError', 'must be real number, not complex', None, "
                        'None, False), True)',
 'nested-range-34-complex-1j': "(('EXC', 'builtins.TypeError', 'must be real number, not complex', "
                               'None, None, False), True)',
 "range-35-bytes-b'1'": "(('EXC', 'builtins.TypeError', 'must be real number, not bytes', None, "
                        'None, False), True)',
 "nested-range-35-bytes-b'1'": "(('EXC', 'builtins.TypeError', 'must be real number, not bytes', "
                               'None, None, False), True)',
 'range-36-ndarray-array(5)': "(('OK', ('dict', [(('str', 'valid_range'), ('list', [('int', 0), "
                              "('ndarray', 'int64', (), ('int', 5))]))])), True)",
 'nested-range-36-ndarray-array(5)': "(('OK', ('dict', [(('str', 'valid_range'), ('list', [('int', "
                                     "0), ('ndarray', 'int64', (), ('int', 5))])), (('str', "
                                     "'number_of_burst_data'), ('int', 2))])), True)",
 'range-37-ndarray-array([5])': "(('EXC', 'builtins.TypeError', 'only 0-dimensional arrays can be "
                                "converted to Python scalars', None, None, False), True)",
 'nested-range-37-ndarray-array([5])': "(('EXC', 'builtins.TypeError', 'only 0-dimensional arrays "
                                       "can be converted to Python scalars', None, None, False), "
                                       'True)',
 'range-38-ndarray-array([1, 2])': "(('EXC', 'builtins.ValueError', 'The truth value of an array "
                                   'with more than one element is ambiguous. Use a.any() or '
                                   "a.all()', None, None, False), True)",
 'nested-range-38-ndarray-array([1, 2])': "(('EXC', 'builtins.ValueError', 'The truth value of an "
                                          'array with more than one element is ambiguous. Use '
                                          "a.any() or a.all()', None, None, False), True)",
 'range-39-ndarray-array(nan)': "(('OK', ('dict', [])), True)",
 'nested-range-39-ndarray-array(nan)': "(('OK', ('dict', [(('str', 'number_of_burst_data'), "
                                       "('int', 2))])), True)",
 'range-40-Weird-Weird(True, True)': "(('OK', ('dict', [])), True)",
 'nested-range-40-Weird-Weird(True, True)': "(('OK', ('dict', [(('str', 'number_of_burst_data'), "
                                            "('int', 2))])), True)",
 'range-41-Weird-Weird(True, False)': "(('OK', ('dict', [])), True)",
 'nested-range-41-Weird-Weird(True, False)': "(('OK', ('dict', [(('str', 'number_of_burst_data'), "
                                             "('int', 2))])), True)",
 'range-42-Weird-Weird(False, True)': "(('OK', ('dict', [])), True)",
 'nested-range-42-Weird-Weird(False, True)': "(('OK', ('dict', [(('str', 'number_of_burst_data'), "
                                             "('int', 2))])), True)",
 'range-43-Weird-Weird(False, False)': "(('OK', ('dict', [(('str', 'valid_range'), ('list', "
                                       "[('int', 0), ('repr', 'Weird', 'Weird(False, "
                                       "False)')]))])), True)",
 'nested-range-43-Weird-Weird(False, False)': "(('OK', ('dict', [(('str', 'valid_range'), ('list', "
                                              "[('int', 0), ('repr', 'Weird', 'Weird(False, "
                                              "False)')])), (('str', 'number_of_burst_data'), "
                                              "('int', 2))])), True)",
 'mapping-dict': "(('OK', ('dict', [(('str', 'interleaving_id'), ('str', 'BSQ')), (('str', "
                 "'valid_range'), ('list', [('int', 0), ('int', 10)])), (('str', "
                 "'number_of_lines_per_burst'), ('int', 4)), (('str', "
                 "'number_of_overlap_lines_with_adjacent_bursts'), ('int', 6))])), True)",
 'mapping-container': "(('OK', ('dict', [(('str', 'interleaving_id'), ('str', 'BSQ')), (('str', "
                      "'valid_range'), ('list', [('int', 0), ('int', 10)])), (('str', "
                      "'number_of_lines_per_burst'), ('int', 4)), (('str', "
                      "'number_of_overlap_lines_with_adjacent_bursts'), ('int', 6))])), True)",
 'mapping-ordered': "(('OK', ('dict', [(('str', 'interleaving_id'), ('str', 'BSQ')), (('str', "
                    "'valid_range'), ('list', [('int', 0), ('int', 10)])), (('str', "
                    "'number_of_lines_per_burst'), ('int', 4)), (('str', "
                    "'number_of_overlap_lines_with_adjacent_bursts'), ('int', 6))])), True)",
 'mapping-proxy': "(('OK', ('dict', [(('str', 'interleaving_id'), ('str', 'BSQ')), (('str', "
                  "'valid_range'), ('list', [('int', 0), ('int', 10)])), (('str', "
                  "'number_of_lines_per_burst'), ('int', 4)), (('str', "
                  "'number_of_overlap_lines_with_adjacent_bursts'), ('int', 6))])), True)",
 'mapping-chainmap': "(('OK', ('dict', [(('str', 'interleaving_id'), ('str', 'A')), (('str', "
                     "'valid_range'), ('list', [('int', 0), ('int', 10)])), (('str', "
                     "'number_of_lines_per_burst'), ('int', 4)), (('str', "
                     "'number_of_overlap_lines_with_adjacent_bursts'), ('int', 6))])), True)",
 'mapping-defaultdict': "(('OK', ('dict', [(('str', 'interleaving_id'), ('str', 'BSQ')), (('str', "
                        "'valid_range'), ('list', [('int', 0), ('int', 10)])), (('str', "
                        "'number_of_lines_per_burst'), ('int', 4)), (('str', "
                        "'number_of_overlap_lines_with_adjacent_bursts'), ('int', 6))])), True)",
 'mapping-nested-proxy': "(('OK', ('dict', [])), True)",
 'mapping-known-proxy': "(('OK', ('dict', [(('str', 'interleaving_id'), ('repr', 'mappingproxy', "
                        '"mappingproxy({\'number_of_burst_data\': 1})"))])), True)',
 'mapping-items-only': "(('OK', ('dict', [(('str', 'interleaving_id'), ('str', 'BSQ')), (('str', "
                       "'valid_range'), ('list', [('int', 0), ('int', 10)])), (('str', "
                       "'number_of_lines_per_burst'), ('int', 4)), (('str', "
                       "'number_of_overlap_lines_with_adjacent_bursts'), ('int', 6))])), True)",
 'mapping-duplicate-items': "(('OK', ('dict', [(('str', 'interleaving_id'), ('str', 'second')), "
                            "(('str', 'number_of_burst_data'), ('int', 2))])), True)",
 'keys-not-str': "(('OK', ('dict', [(('str', 'interleaving_id'), ('str', 'x'))])), True)",
 'invalid-none': '((\'EXC\', \'builtins.AttributeError\', "\'NoneType\' object has no attribute '
                 '\'items\'", None, None, False), True)',
 'invalid-list': '((\'EXC\', \'builtins.AttributeError\', "\'list\' object has no attribute '
                 '\'items\'", None, None, False), True)',
 'invalid-str': '((\'EXC\', \'builtins.AttributeError\', "\'str\' object has no attribute '
                '\'items\'", None, None, False), True)',
 'invalid-int': '((\'EXC\', \'builtins.AttributeError\', "\'int\' object has no attribute '
                '\'items\'", None, None, False), True)',
 'invalid-items-not-pairs': "(('EXC', 'builtins.TypeError', 'cannot unpack non-iterable int "
                            "object', None, None, False), True)",
 'invalid-items-unhashable': '((\'EXC\', \'builtins.TypeError\', "unhashable type: \'list\'", '
                             'None, None, False), True)',
 'invalid-items-nested-unhashable': "(('OK', ('dict', [])), True)",
 'fresh': "('dict', False, False, True)",
 'fresh-after-mutation': "('OK', ('dict', [(('str', 'valid_range'), ('list', [('int', 0), ('int', "
                         "5)])), (('str', 'interleaving_id'), ('list', [('str', 'BSQ')]))]))",
 'file-blank': "(('OK', ('dict', [(('str', 'interleaving_id'), ('str', 'BSQ'))])), True)",
 'file-blank-transform': 'sha256:e5f262434ee9f618e9232dffc27115616f9abe5dee097a1e490bdbd35c974f43 '
                         "length:5844 start:('OK', ('tuple', [('Group', '/', None, [('rows', "
                         "('Variable', ('list', [('str', 'rows')]), ('list', [('int', 0), ('int', "
                         "1)]), ('dict', []))), ('sensor_acquisit",
 'file-level15': "(('OK', ('dict', [(('str', 'interleaving_id'), ('str', 'BSQ')), (('str', "
                 "'valid_range'), ('list', [('int', 0), ('int', 65535)]))])), True)",
 'file-level15-transform': 'sha256:8b1a0558c59e421541e447801b7c519189b05bf4be223e38928aad9b5b5ecdc5 '
                           "length:5910 start:('OK', ('tuple', [('Group', '/', None, [('rows', "
                           "('Variable', ('list', [('str', 'rows')]), ('list', [('int', 0), "
                           "('int', 1)]), ('dict', []))), ('sensor_acquisit",
 'file-zero-range': "(('OK', ('dict', [(('str', 'interleaving_id'), ('str', 'BSQ')), (('str', "
                    "'valid_range'), ('list', [('int', 0), ('int', 0)]))])), True)",
 'file-zero-range-transform': 'sha256:a7e39dc8ed78ca1beef6bd927e16efd0d83c464f7c92668a9d81776880121aca '
                              "length:5906 start:('OK', ('tuple', [('Group', '/', None, [('rows', "
                              "('Variable', ('list', [('str', 'rows')]), ('list', [('int', 0), "
                              "('int', 1)]), ('dict', []))), ('sensor_acquisit",
 'file-specan': "(('OK', ('dict', [(('str', 'interleaving_id'), ('str', 'BIL')), (('str', "
                "'number_of_burst_data'), ('int', 32)), (('str', 'number_of_lines_per_burst'), "
                "('int', 61)), (('str', 'number_of_overlap_lines_with_adjacent_bursts'), ('int', "
                '5))])), True)',
 'file-specan-transform': 'sha256:5ed2176073bf259caadb62842e59041a2482ca85dd9e119c3d2f85b7f538b8fb '
                          "length:6016 start:('OK', ('tuple', [('Group', '/', None, [('rows', "
                          "('Variable', ('list', [('str', 'rows')]), ('list', [('int', 0), ('int', "
                          "1)]), ('dict', []))), ('sensor_acquisit",
 'file-no-interleaving': "(('OK', ('dict', [(('str', 'interleaving_id'), ('str', ''))])), True)",
 'file-no-interleaving-transform': 'sha256:5110003f945477909da9b35449006b780f37d334fa7ddea0f0df10039e5cf97a '
                                   "length:5841 start:('OK', ('tuple', [('Group', '/', None, "
                                   "[('rows', ('Variable', ('list', [('str', 'rows')]), ('list', "
                                   "[('int', 0), ('int', 1)]), ('dict', []))), ('sensor_acquisit",
 'file-everything': "(('OK', ('dict', [(('str', 'interleaving_id'), ('str', 'BSQ')), (('str', "
                    "'valid_range'), ('list', [('int', 0), ('int', 255)])), (('str', "
                    "'number_of_burst_data'), ('int', 0)), (('str', 'number_of_lines_per_burst'), "
                    "('int', 1)), (('str', 'number_of_overlap_lines_with_adjacent_bursts'), "
                    "('int', 9999))])), True)",
 'file-everything-transform': 'sha256:1463d25be40670eb98cbef3fd636d828c194b710f5faa2dff670411c53db0f90 '
                              "length:6081 start:('OK', ('tuple', [('Group', '/', None, [('rows', "
                              "('Variable', ('list', [('str', 'rows')]), ('list', [('int', 0), "
                              "('int', 1)]), ('dict', []))), ('sensor_acquisit",
 'names': "['apply_overrides', 'apply_to_items', 'as_group', 'compose_left', 'cons', 'curry', "
          "'deduplicate_attrs', 'dissoc', 'dtypes', 'extract_attrs', 'extract_format_type', "
          "'extract_shape', 'first', 'keyfilter', 'keysplit', 'math', 'merge_with', 'np', 'pipe', "
          "'remove_nesting_layer', 'remove_spares', 'rename', 'second', 'separate_attrs', "
          "'starcall', 'transform_line_metadata', 'transform_metadata', 'valfilter', 'valmap']"}

if __name__ == "__main__":
    recorder = Recorder()
    run(recorder)
    sys.exit(recorder.finish(EXPECTED))


def test_equivalence():
    recorder = Recorder()
    run(recorder)
    recorder.finish(EXPECTED)
