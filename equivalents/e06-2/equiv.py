"""Equivalence check for refactoring 2 (ceos_alos2/transformers.py).

Run as
    cd <worktree> && PYTHONPATH=<worktree> /venv/bin/python _eq/2/equiv.py

The expected values below were produced by the UNCHANGED code; the script must
pass both with and without the patch applied.
"""

from ceos_alos2 import transformers as T
from ceos_alos2.hierarchy import Group, Variable


def outcome(f, *args):
    try:
        return f(*args)
    except Exception as e:  # noqa: BLE001
        return "EXC " + type(e).__name__


def check(label, actual, expected):
    # compare the repr as well: it distinguishes list / tuple dims, dict order, ...
    assert type(actual) is type(expected), f"{label}: got {actual!r}, expected {expected!r}"
    assert repr(actual) == repr(expected), f"{label}: got {actual!r}, expected {expected!r}"


# --- remove_spares ------------------------------------------------------------
check(
    "remove_spares flat",
    outcome(
        T.remove_spares,
        {
            "spare": 1,
            "spare1": 2,
            "blanks": 3,
            "blanks12": 4,
            "spare_x": 5,
            "blanksy": 6,
            "spareblanks": 7,
            "spareblanks3": 8,
            "sparespare": 9,
            "blanksspare": 10,
            "a": 11,
            "": 12,
            "Spare1": 13,
            "spare 1": 14,
            "spare٣": 15,  # arabic-indic digit: str.isdigit() is true
            "spare1.5": 16,
        },
    ),
    {
        "spare_x": 5,
        "blanksy": 6,
        "sparespare": 9,
        "blanksspare": 10,
        "a": 11,
        "": 12,
        "Spare1": 13,
        "spare 1": 14,
        "spare1.5": 16,
    },
)
check(
    "remove_spares nested",
    outcome(
        T.remove_spares,
        {
            "a": {"spare1": 1, "b": [{"blanks": 1, "c": 2}, {"spare2": 1}, 5, [{"spare": 1}]]},
            "l": [1, {"spare": 0}],
            "t": ({"spare": 1},),
            "n": None,
        },
    ),
    {"a": {"b": [{"c": 2}, {}, 5, [{}]]}, "l": [1, {}], "t": ({"spare": 1},), "n": None},
)
check("remove_spares list", outcome(T.remove_spares, [{"spare": 1, "x": 2}, 3]), [{"x": 2}, 3])
check("remove_spares int", outcome(T.remove_spares, 5), 5)
check("remove_spares None", outcome(T.remove_spares, None), None)
check("remove_spares {}", outcome(T.remove_spares, {}), {})
check("remove_spares []", outcome(T.remove_spares, []), [])
check("remove_spares tuple", outcome(T.remove_spares, ({"spare": 1},)), ({"spare": 1},))
check("remove_spares int key", outcome(T.remove_spares, {1: 2}), "EXC AttributeError")
check("remove_spares None key", outcome(T.remove_spares, {"a": {None: 1}}), "EXC AttributeError")

# the result never aliases the input containers
source = {"a": {"b": 1}, "l": [{"c": 2}]}
result = T.remove_spares(source)
assert result == source
assert result is not source and result["a"] is not source["a"] and result["l"] is not source["l"]
assert result["l"][0] is not source["l"][0]

# --- item_type ----------------------------------------------------------------
for value, expected in [
    ([1, 2], "variable"),
    ([], "variable"),
    ((1, {}), "variable"),
    (({}, {}), "group"),
    (({"a": 1},), "group"),
    (("d", [1], {}), "variable"),
    ({}, "group"),
    ({"a": 1}, "group"),
    (1, "attribute"),
    ("s", "attribute"),
    (None, "attribute"),
    (b"x", "attribute"),
    (1.5, "attribute"),
    ((), "EXC IndexError"),
    (([], {}), "variable"),
    ((None,), "variable"),
]:
    check(f"item_type {value!r}", outcome(T.item_type, ("k", value)), expected)
check("item_type short item", outcome(T.item_type, ("k",)), "EXC StopIteration")
check("item_type long item", outcome(T.item_type, ["k", [1], "extra"]), "variable")
check("item_type iterator", outcome(T.item_type, iter(["k", {}])), "group")

# --- transform_nested -----------------------------------------------------------
check(
    "transform_nested mapping",
    outcome(
        T.transform_nested,
        {
            "a": [{"x": 1, "y": 2}, {"x": 3, "y": 4}],
            "b": [1, 2],
            "c": [],
            "d": 5,
            "e": [{"x": 1}, {"z": 2}],
            "f": {"g": [{"x": 1}]},
            "h": [[{"x": 1}]],
        },
    ),
    {
        "a": {"x": [1, 3], "y": [2, 4]},
        "b": [1, 2],
        "c": [],
        "d": 5,
        "e": {"x": [1], "z": [2]},
        "f": {"g": [{"x": 1}]},
        "h": [[{"x": 1}]],
    },
)
check(
    "transform_nested list of mappings",
    outcome(T.transform_nested, [{"a": [{"x": 1}], "b": 2}, {"a": [{"x": 2}], "b": 3}]),
    {"a": [[{"x": 1}], [{"x": 2}]], "b": [2, 3]},
)
check("transform_nested {}", outcome(T.transform_nested, {}), {})
for bad in ([], [1, 2], 5, None, [{"a": 1}, 5], {"a": [{"x": 1}, 5]}, "ab"):
    check(f"transform_nested {bad!r}", outcome(T.transform_nested, bad), "EXC AttributeError")

# --- separate_attrs -------------------------------------------------------------
for data, expected in [
    ([(1, {"u": "m"}), (2, {"u": "s"})], ([1, 2], {"u": "m"})),
    ([1, 2], ([1, 2], {})),
    ([], ([], {})),
    ((1, {}), ((1, {}), {})),
    (None, (None, {})),
    ([(1, {}), (2, {}, "x")], ([1, 2], {})),  # zip truncates
    ([(1,), (2,)], "EXC ValueError"),
    ([(1, 2, 3)], "EXC ValueError"),
    ([()], "EXC ValueError"),
    ([(1, {"a": 1})], ([1], {"a": 1})),
    ([(1, {}), 5], "EXC TypeError"),
]:
    check(f"separate_attrs {data!r}", outcome(T.separate_attrs, data), expected)
metadata = {"u": "m"}
assert T.separate_attrs([(1, metadata), (2, {})])[1] is metadata

# --- as_variable ----------------------------------------------------------------
for value, expected in [
    (([1, 2], {"a": 1}), Variable(dims=(), data=[1, 2], attrs={"a": 1})),
    (("x", [1, 2], {}), Variable(dims=["x"], data=[1, 2], attrs={})),
    ((["x", "y"], [[1]], {"b": 2}), Variable(dims=["x", "y"], data=[[1]], attrs={"b": 2})),
    ((1,), "EXC ValueError"),
    ((1, 2, 3, 4), "EXC ValueError"),
    ((), "EXC ValueError"),
    (5, "EXC TypeError"),
    ([[1], {}], Variable(dims=(), data=[1], attrs={})),
    ("ab", Variable(dims=(), data="a", attrs="b")),
]:
    check(f"as_variable {value!r}", outcome(T.as_variable, value), expected)

# --- as_group -------------------------------------------------------------------
group = outcome(
    T.as_group,
    {
        "a": 1,
        "v": ([1, 2], {"u": "m"}),
        "l": [1, 2, 3],
        "w": ("x", [1], {}),
        "g": {"b": 2, "vv": (1.5, {})},
        "gt": ({"c": 3}, {"extra": 1}),
        "s": "str",
    },
)
check(
    "as_group nested",
    group,
    Group(
        path="/",
        url=None,
        data={
            "v": Variable(dims=(), data=[1, 2], attrs={"u": "m"}),
            "l": Variable(dims=1, data=2, attrs=3),
            "w": Variable(dims=["x"], data=[1], attrs={}),
            "g": Group(
                path="/g",
                url=None,
                data={"vv": Variable(dims=(), data=1.5, attrs={})},
                attrs={"b": 2},
            ),
            "gt": Group(path="/gt", url=None, data={}, attrs={"c": 3, "extra": 1}),
        },
        attrs={"a": 1, "s": "str"},
    ),
)
assert list(group.data) == ["v", "l", "w", "g", "gt"]
assert list(group.attrs) == ["a", "s"]
assert group["g"].path == "/g" and group["gt"].attrs == {"c": 3, "extra": 1}

check(
    "as_group additional attrs",
    outcome(T.as_group, ({"a": 1, "z": 0}, {"a": 2, "b": 3})),
    Group(path="/", url=None, data={}, attrs={"a": 2, "z": 0, "b": 3}),
)
check("as_group {}", outcome(T.as_group, {}), Group(path="/", url=None, data={}, attrs={}))
check("as_group ({}, {})", outcome(T.as_group, ({}, {})), Group("/", None, {}, {}))
for bad, expected in [
    ({"a": ()}, "EXC IndexError"),
    (5, "EXC AttributeError"),
    (({"a": 1},), "EXC ValueError"),
    ({"v": (1,)}, "EXC ValueError"),
    ({"l": [1]}, "EXC ValueError"),
    (None, "EXC AttributeError"),
]:
    check(f"as_group {bad!r}", outcome(T.as_group, bad), expected)

# --- normalize_datetime (untouched, for completeness) ---------------------------
check(
    "normalize_datetime",
    outcome(T.normalize_datetime, "20200101123456789012"),
    "2020-01-01T12:34:56.789012",
)
check("normalize_datetime blank", outcome(T.normalize_datetime, ""), "EXC ValueError")

print("refactoring 2: all equivalence checks passed")
