"""Equivalence check for refactoring 3 (ceos_alos2.sar_image.cli: create_cache, main).

Run as `python equiv.py` (or through pytest).  `python equiv.py --record` prints
the outcomes of the code currently importable, which is how EXPECTED was produced
from the unchanged code.

`open_image`, `caching` and `fsspec` are replaced in the cli module by recording
stand-ins (the names the module itself looks up), paths are either recording fakes
or real `pathlib` paths below a temporary directory.
"""

import contextlib
import io
import os
import pathlib
import pprint
import sys
import tempfile
import types

from ceos_alos2.sar_image import cli

LOG = []


class FakePath:
    """records every request made to it, in order"""

    def __init__(self, name, *, is_file=True, is_dir=True, write_error=None, parent=None):
        self._name = name
        self._is_file = is_file
        self._is_dir = is_dir
        self._write_error = write_error
        self._parent = parent

    def __str__(self):
        LOG.append((self._name, "str"))
        return f"<{self._name}>"

    def is_file(self):
        LOG.append((self._name, "is_file"))
        if isinstance(self._is_file, BaseException):
            raise self._is_file
        return self._is_file

    def is_dir(self):
        LOG.append((self._name, "is_dir"))
        if isinstance(self._is_dir, BaseException):
            raise self._is_dir
        return self._is_dir

    @property
    def parent(self):
        LOG.append((self._name, "parent"))
        return self._parent

    @property
    def name(self):
        LOG.append((self._name, "name"))
        return f"{self._name}.bin"

    def as_uri(self):
        LOG.append((self._name, "as_uri"))
        return f"fake://{self._name}"

    def __truediv__(self, other):
        LOG.append((self._name, "truediv", other))
        return FakePath(f"{self._name}/{other}", write_error=self._write_error)

    def write_text(self, text):
        LOG.append((self._name, "write_text", text))
        if self._write_error is not None:
            raise self._write_error
        return len(text)


class Stubs:
    def __init__(self, open_error=None, encode_error=None, mapper_error=None):
        self.open_error = open_error
        self.encode_error = encode_error
        self.mapper_error = mapper_error

    def get_mapper(self, *args, **kwargs):
        LOG.append(("fsspec.get_mapper", args, kwargs))
        if self.mapper_error is not None:
            raise self.mapper_error
        return f"mapper({args[0]})"

    def open_image(self, *args, **kwargs):
        LOG.append(("open_image", args, kwargs))
        if self.open_error is not None:
            raise self.open_error
        return ("group", args[1])

    def encode(self, group):
        LOG.append(("caching.encode", group))
        if self.encode_error is not None:
            raise self.encode_error
        return f"encoded{group!r}"


@contextlib.contextmanager
def patched(stubs):
    saved = cli.fsspec, cli.open_image, cli.caching
    cli.fsspec = types.SimpleNamespace(get_mapper=stubs.get_mapper)
    cli.open_image = stubs.open_image
    cli.caching = types.SimpleNamespace(encode=stubs.encode)
    try:
        yield
    finally:
        cli.fsspec, cli.open_image, cli.caching = saved


def describe_exception(exc, scrub=lambda text: text):
    cause, context = exc.__cause__, exc.__context__
    return (
        "raises",
        type(exc).__name__,
        [scrub(a) if isinstance(a, str) else a for a in exc.args],
        None if cause is None else (type(cause).__name__, scrub(str(cause))),
        None if context is None else (type(context).__name__, scrub(str(context))),
        exc.__suppress_context__,
    )


def fake_case(image=None, root=None, rpc=7, **stub_kwargs):
    image = {} if image is None else image
    parent = FakePath("parent", write_error=image.pop("parent_write_error", None))
    image_path = FakePath("image", parent=parent, **image)
    cache_root = None if root is None else FakePath("root", **root)
    del LOG[:]
    with patched(Stubs(**stub_kwargs)):
        try:
            result = cli.create_cache(image_path, cache_root, rpc)
        except BaseException as exc:  # noqa: B902
            outcome = describe_exception(exc)
        else:
            outcome = ("returns", repr(result))
    return outcome, list(LOG)


def fake_cases():
    return [
        fake_case(),
        fake_case(rpc=None),
        fake_case(rpc="auto"),
        fake_case(root={}),
        fake_case(image={"is_file": False}),
        fake_case(image={"is_file": False}, root={}),
        fake_case(image={"is_file": False}, root={"is_dir": False}),
        fake_case(root={"is_dir": False}),
        fake_case(image={"is_file": 0}, root={"is_dir": 0}),
        fake_case(image={"is_file": 1}, root={"is_dir": 1}),
        fake_case(image={"is_file": PermissionError(13, "no stat")}),
        fake_case(root={"is_dir": PermissionError(13, "no stat")}),
        fake_case(image={"is_file": RuntimeError("boom")}, root={"is_dir": False}),
        fake_case(mapper_error=ValueError("unknown protocol")),
        fake_case(open_error=FileNotFoundError(2, "gone")),
        fake_case(open_error=KeyError("field")),
        fake_case(encode_error=TypeError("cannot encode")),
        fake_case(root={}, encode_error=TypeError("cannot encode")),
        fake_case(image={"parent_write_error": PermissionError(13, "read-only")}),
        fake_case(root={"write_error": OSError("disk full")}),
        fake_case(root={"write_error": ValueError("odd")}),
    ]


def run_main(argv, stubs):
    stdout, stderr = io.StringIO(), io.StringIO()
    saved_argv, saved_columns = sys.argv, os.environ.get("COLUMNS")
    sys.argv = ["create-cache"] + argv
    os.environ["COLUMNS"] = "80"  # argparse wraps its messages to the terminal width
    del LOG[:]
    try:
        with patched(stubs), contextlib.redirect_stdout(stdout), contextlib.redirect_stderr(stderr):
            try:
                result = cli.main()
            except BaseException as exc:  # noqa: B902
                outcome = exc
            else:
                outcome = ("returns", repr(result))
    finally:
        sys.argv = saved_argv
        if saved_columns is None:
            del os.environ["COLUMNS"]
        else:
            os.environ["COLUMNS"] = saved_columns
    return outcome, stdout.getvalue(), stderr.getvalue(), list(LOG)


def real_cases():
    results = []
    with tempfile.TemporaryDirectory() as tmp:
        tmp = pathlib.Path(tmp).resolve()

        def scrub(obj):
            return obj.replace(str(tmp), "TMP") if isinstance(obj, str) else obj

        def listing():
            return sorted(
                (str(p.relative_to(tmp)), p.read_text() if p.is_file() else None)
                for p in tmp.rglob("*")
            )

        def call(argv, stubs=None):
            stubs = Stubs() if stubs is None else stubs
            outcome, out, err, log = run_main(argv, stubs)
            if isinstance(outcome, BaseException):
                outcome = describe_exception(outcome, scrub)
            results.append(
                ([scrub(a) for a in argv], outcome, scrub(out), scrub(err), scrub(repr(log)), listing())
            )

        (tmp / "scene").mkdir()
        (tmp / "cache").mkdir()
        (tmp / "scene" / "IMG-HH-X").write_bytes(b"raw")
        (tmp / "scene" / "IMG HV Y").write_bytes(b"raw")
        image = str(tmp / "scene" / "IMG-HH-X")

        # argument handling
        call([])
        call(["--rpc"])
        call(["--rpc", "12"])
        call(["--rpc", "abc", image])
        call([image, str(tmp / "cache"), "extra"])
        call(["--unknown", image])
        call(["-h"])
        # failures reported on stderr
        call([str(tmp / "scene" / "missing")])
        call([str(tmp / "scene")])
        call([str(tmp / "scene" / "missing"), str(tmp / "nowhere")])
        call([image, str(tmp / "nowhere")])
        call([image, image])
        call([image], Stubs(open_error=FileNotFoundError(2, "No such file")))
        call([image], Stubs(open_error=OSError("plain message")))
        call([image], Stubs(open_error=PermissionError(13, "denied", "somefile")))
        call([image], Stubs(open_error=OSError()))
        call([image], Stubs(open_error=OSError(("tuple", "arg"))))
        call([image], Stubs(encode_error=IsADirectoryError(21, "dir")))
        # failures that are not reported but propagate
        call([image], Stubs(open_error=ValueError("bad header")))
        call([image], Stubs(open_error=KeyboardInterrupt()))
        call([image], Stubs(encode_error=TypeError("cannot encode")))
        call([image], Stubs(mapper_error=ImportError("no backend")))
        # successes
        call([image])
        call([image, "--rpc", "100"])
        call(["--rpc", "--", image])
        call(["--rpc=-1", image, str(tmp / "cache")])
        call([str(tmp / "scene" / "IMG HV Y"), str(tmp / "cache")])
        call([image, str(tmp / "cache") + os.sep])
        # the target cannot be written: a directory is in the way
        (tmp / "cache" / "blocked").mkdir()
        (tmp / "cache" / "blocked" / "IMG-HH-X.index").mkdir()
        call([image, str(tmp / "cache" / "blocked")])
        # relative paths cannot be turned into a URI
        saved = os.getcwd()
        os.chdir(tmp / "scene")
        try:
            call(["IMG-HH-X"])
            call(["IMG-HH-X", "../cache"])
        finally:
            os.chdir(saved)
    return results


def run():
    return {"fake": fake_cases(), "real": real_cases()}


# recorded from the unchanged code (HEAD) with `python equiv.py --record`
EXPECTED = {'fake': [(('returns', 'None'),
           [('image', 'is_file'),
            ('image', 'parent'),
            ('image', 'parent'),
            ('parent', 'as_uri'),
            ('fsspec.get_mapper', ('fake://parent',), {}),
            ('image', 'name'),
            ('open_image',
             ('mapper(fake://parent)', 'image.bin'),
             {'create_cache': False, 'records_per_chunk': 7, 'use_cache': False}),
            ('caching.encode', ('group', 'image.bin')),
            ('parent', 'truediv', 'image.bin.index'),
            ('parent/image.bin.index', 'write_text', "encoded('group', 'image.bin')")]),
          (('returns', 'None'),
           [('image', 'is_file'),
            ('image', 'parent'),
            ('image', 'parent'),
            ('parent', 'as_uri'),
            ('fsspec.get_mapper', ('fake://parent',), {}),
            ('image', 'name'),
            ('open_image',
             ('mapper(fake://parent)', 'image.bin'),
             {'create_cache': False, 'records_per_chunk': None, 'use_cache': False}),
            ('caching.encode', ('group', 'image.bin')),
            ('parent', 'truediv', 'image.bin.index'),
            ('parent/image.bin.index', 'write_text', "encoded('group', 'image.bin')")]),
          (('returns', 'None'),
           [('image', 'is_file'),
            ('image', 'parent'),
            ('image', 'parent'),
            ('parent', 'as_uri'),
            ('fsspec.get_mapper', ('fake://parent',), {}),
            ('image', 'name'),
            ('open_image',
             ('mapper(fake://parent)', 'image.bin'),
             {'create_cache': False, 'records_per_chunk': 'auto', 'use_cache': False}),
            ('caching.encode', ('group', 'image.bin')),
            ('parent', 'truediv', 'image.bin.index'),
            ('parent/image.bin.index', 'write_text', "encoded('group', 'image.bin')")]),
          (('returns', 'None'),
           [('image', 'is_file'),
            ('root', 'is_dir'),
            ('image', 'parent'),
            ('parent', 'as_uri'),
            ('fsspec.get_mapper', ('fake://parent',), {}),
            ('image', 'name'),
            ('open_image',
             ('mapper(fake://parent)', 'image.bin'),
             {'create_cache': False, 'records_per_chunk': 7, 'use_cache': False}),
            ('caching.encode', ('group', 'image.bin')),
            ('root', 'truediv', 'image.bin.index'),
            ('root/image.bin.index', 'write_text', "encoded('group', 'image.bin')")]),
          (('raises',
            'FileNotFoundError',
            ['Cannot find image file at given path: <image>'],
            None,
            None,
            False),
           [('image', 'is_file'), ('image', 'str')]),
          (('raises',
            'FileNotFoundError',
            ['Cannot find image file at given path: <image>'],
            None,
            None,
            False),
           [('image', 'is_file'), ('image', 'str')]),
          (('raises',
            'FileNotFoundError',
            ['Cannot find image file at given path: <image>'],
            None,
            None,
            False),
           [('image', 'is_file'), ('image', 'str')]),
          (('raises', 'OSError', ['Cannot find the target cache root: <root>'], None, None, False),
           [('image', 'is_file'), ('root', 'is_dir'), ('root', 'str')]),
          (('raises',
            'FileNotFoundError',
            ['Cannot find image file at given path: <image>'],
            None,
            None,
            False),
           [('image', 'is_file'), ('image', 'str')]),
          (('returns', 'None'),
           [('image', 'is_file'),
            ('root', 'is_dir'),
            ('image', 'parent'),
            ('parent', 'as_uri'),
            ('fsspec.get_mapper', ('fake://parent',), {}),
            ('image', 'name'),
            ('open_image',
             ('mapper(fake://parent)', 'image.bin'),
             {'create_cache': False, 'records_per_chunk': 7, 'use_cache': False}),
            ('caching.encode', ('group', 'image.bin')),
            ('root', 'truediv', 'image.bin.index'),
            ('root/image.bin.index', 'write_text', "encoded('group', 'image.bin')")]),
          (('raises', 'PermissionError', [13, 'no stat'], None, None, False), [('image', 'is_file')]),
          (('raises', 'PermissionError', [13, 'no stat'], None, None, False),
           [('image', 'is_file'), ('root', 'is_dir')]),
          (('raises', 'RuntimeError', ['boom'], None, None, False), [('image', 'is_file')]),
          (('raises', 'ValueError', ['unknown protocol'], None, None, False),
           [('image', 'is_file'),
            ('image', 'parent'),
            ('image', 'parent'),
            ('parent', 'as_uri'),
            ('fsspec.get_mapper', ('fake://parent',), {})]),
          (('raises', 'FileNotFoundError', [2, 'gone'], None, None, False),
           [('image', 'is_file'),
            ('image', 'parent'),
            ('image', 'parent'),
            ('parent', 'as_uri'),
            ('fsspec.get_mapper', ('fake://parent',), {}),
            ('image', 'name'),
            ('open_image',
             ('mapper(fake://parent)', 'image.bin'),
             {'create_cache': False, 'records_per_chunk': 7, 'use_cache': False})]),
          (('raises', 'KeyError', ['field'], None, None, False),
           [('image', 'is_file'),
            ('image', 'parent'),
            ('image', 'parent'),
            ('parent', 'as_uri'),
            ('fsspec.get_mapper', ('fake://parent',), {}),
            ('image', 'name'),
            ('open_image',
             ('mapper(fake://parent)', 'image.bin'),
             {'create_cache': False, 'records_per_chunk': 7, 'use_cache': False})]),
          (('raises', 'TypeError', ['cannot encode'], None, None, False),
           [('image', 'is_file'),
            ('image', 'parent'),
            ('image', 'parent'),
            ('parent', 'as_uri'),
            ('fsspec.get_mapper', ('fake://parent',), {}),
            ('image', 'name'),
            ('open_image',
             ('mapper(fake://parent)', 'image.bin'),
             {'create_cache': False, 'records_per_chunk': 7, 'use_cache': False}),
            ('caching.encode', ('group', 'image.bin'))]),
          (('raises', 'TypeError', ['cannot encode'], None, None, False),
           [('image', 'is_file'),
            ('root', 'is_dir'),
            ('image', 'parent'),
            ('parent', 'as_uri'),
            ('fsspec.get_mapper', ('fake://parent',), {}),
            ('image', 'name'),
            ('open_image',
             ('mapper(fake://parent)', 'image.bin'),
             {'create_cache': False, 'records_per_chunk': 7, 'use_cache': False}),
            ('caching.encode', ('group', 'image.bin'))]),
          (('raises', 'PermissionError', [13, 'read-only'], None, None, False),
           [('image', 'is_file'),
            ('image', 'parent'),
            ('image', 'parent'),
            ('parent', 'as_uri'),
            ('fsspec.get_mapper', ('fake://parent',), {}),
            ('image', 'name'),
            ('open_image',
             ('mapper(fake://parent)', 'image.bin'),
             {'create_cache': False, 'records_per_chunk': 7, 'use_cache': False}),
            ('caching.encode', ('group', 'image.bin')),
            ('parent', 'truediv', 'image.bin.index'),
            ('parent/image.bin.index', 'write_text', "encoded('group', 'image.bin')")]),
          (('raises', 'OSError', ['disk full'], None, None, False),
           [('image', 'is_file'),
            ('root', 'is_dir'),
            ('image', 'parent'),
            ('parent', 'as_uri'),
            ('fsspec.get_mapper', ('fake://parent',), {}),
            ('image', 'name'),
            ('open_image',
             ('mapper(fake://parent)', 'image.bin'),
             {'create_cache': False, 'records_per_chunk': 7, 'use_cache': False}),
            ('caching.encode', ('group', 'image.bin')),
            ('root', 'truediv', 'image.bin.index'),
            ('root/image.bin.index', 'write_text', "encoded('group', 'image.bin')")]),
          (('raises', 'ValueError', ['odd'], None, None, False),
           [('image', 'is_file'),
            ('root', 'is_dir'),
            ('image', 'parent'),
            ('parent', 'as_uri'),
            ('fsspec.get_mapper', ('fake://parent',), {}),
            ('image', 'name'),
            ('open_image',
             ('mapper(fake://parent)', 'image.bin'),
             {'create_cache': False, 'records_per_chunk': 7, 'use_cache': False}),
            ('caching.encode', ('group', 'image.bin')),
            ('root', 'truediv', 'image.bin.index'),
            ('root/image.bin.index', 'write_text', "encoded('group', 'image.bin')")])],
 'real': [([],
           ('raises', 'SystemExit', [2], None, None, False),
           '',
           'usage: create-cache [-h] [--rpc [RPC]] image_path [cache_root]\n'
           'create-cache: error: the following arguments are required: image_path\n',
           '[]',
           [('cache', None), ('scene', None), ('scene/IMG HV Y', 'raw'), ('scene/IMG-HH-X', 'raw')]),
          (['--rpc'],
           ('raises', 'SystemExit', [2], None, None, False),
           '',
           'usage: create-cache [-h] [--rpc [RPC]] image_path [cache_root]\n'
           'create-cache: error: the following arguments are required: image_path\n',
           '[]',
           [('cache', None), ('scene', None), ('scene/IMG HV Y', 'raw'), ('scene/IMG-HH-X', 'raw')]),
          (['--rpc', '12'],
           ('raises', 'SystemExit', [2], None, None, False),
           '',
           'usage: create-cache [-h] [--rpc [RPC]] image_path [cache_root]\n'
           'create-cache: error: the following arguments are required: image_path\n',
           '[]',
           [('cache', None), ('scene', None), ('scene/IMG HV Y', 'raw'), ('scene/IMG-HH-X', 'raw')]),
          (['--rpc', 'abc', 'TMP/scene/IMG-HH-X'],
           ('raises',
            'SystemExit',
            [2],
            None,
            ('ArgumentError', "argument --rpc: invalid int value: 'abc'"),
            False),
           '',
           'usage: create-cache [-h] [--rpc [RPC]] image_path [cache_root]\n'
           "create-cache: error: argument --rpc: invalid int value: 'abc'\n",
           '[]',
           [('cache', None), ('scene', None), ('scene/IMG HV Y', 'raw'), ('scene/IMG-HH-X', 'raw')]),
          (['TMP/scene/IMG-HH-X', 'TMP/cache', 'extra'],
           ('raises', 'SystemExit', [2], None, None, False),
           '',
           'usage: create-cache [-h] [--rpc [RPC]] image_path [cache_root]\n'
           'create-cache: error: unrecognized arguments: extra\n',
           '[]',
           [('cache', None), ('scene', None), ('scene/IMG HV Y', 'raw'), ('scene/IMG-HH-X', 'raw')]),
          (['--unknown', 'TMP/scene/IMG-HH-X'],
           ('raises', 'SystemExit', [2], None, None, False),
           '',
           'usage: create-cache [-h] [--rpc [RPC]] image_path [cache_root]\n'
           'create-cache: error: unrecognized arguments: --unknown\n',
           '[]',
           [('cache', None), ('scene', None), ('scene/IMG HV Y', 'raw'), ('scene/IMG-HH-X', 'raw')]),
          (['-h'],
           ('raises', 'SystemExit', [0], None, None, False),
           'usage: create-cache [-h] [--rpc [RPC]] image_path [cache_root]\n'
           '\n'
           'positional arguments:\n'
           '  image_path   image path to create a cache file for\n'
           '  cache_root   Root path to the new cache file. By default, it is created in\n'
           '               the same directory as the image file.\n'
           '\n'
           'options:\n'
           '  -h, --help   show this help message and exit\n'
           '  --rpc [RPC]  records-per-chunk size used to create the cache files\n',
           '',
           '[]',
           [('cache', None), ('scene', None), ('scene/IMG HV Y', 'raw'), ('scene/IMG-HH-X', 'raw')]),
          (['TMP/scene/missing'],
           ('raises',
            'SystemExit',
            [1],
            None,
            ('FileNotFoundError', 'Cannot find image file at given path: TMP/scene/missing'),
            False),
           '',
           'Cannot find image file at given path: TMP/scene/missing\n',
           '[]',
           [('cache', None), ('scene', None), ('scene/IMG HV Y', 'raw'), ('scene/IMG-HH-X', 'raw')]),
          (['TMP/scene'],
           ('raises',
            'SystemExit',
            [1],
            None,
            ('FileNotFoundError', 'Cannot find image file at given path: TMP/scene'),
            False),
           '',
           'Cannot find image file at given path: TMP/scene\n',
           '[]',
           [('cache', None), ('scene', None), ('scene/IMG HV Y', 'raw'), ('scene/IMG-HH-X', 'raw')]),
          (['TMP/scene/missing', 'TMP/nowhere'],
           ('raises',
            'SystemExit',
            [1],
            None,
            ('FileNotFoundError', 'Cannot find image file at given path: TMP/scene/missing'),
            False),
           '',
           'Cannot find image file at given path: TMP/scene/missing\n',
           '[]',
           [('cache', None), ('scene', None), ('scene/IMG HV Y', 'raw'), ('scene/IMG-HH-X', 'raw')]),
          (['TMP/scene/IMG-HH-X', 'TMP/nowhere'],
           ('raises',
            'SystemExit',
            [1],
            None,
            ('OSError', 'Cannot find the target cache root: TMP/nowhere'),
            False),
           '',
           'Cannot find the target cache root: TMP/nowhere\n',
           '[]',
           [('cache', None), ('scene', None), ('scene/IMG HV Y', 'raw'), ('scene/IMG-HH-X', 'raw')]),
          (['TMP/scene/IMG-HH-X', 'TMP/scene/IMG-HH-X'],
           ('raises',
            'SystemExit',
            [1],
            None,
            ('OSError', 'Cannot find the target cache root: TMP/scene/IMG-HH-X'),
            False),
           '',
           'Cannot find the target cache root: TMP/scene/IMG-HH-X\n',
           '[]',
           [('cache', None), ('scene', None), ('scene/IMG HV Y', 'raw'), ('scene/IMG-HH-X', 'raw')]),
          (['TMP/scene/IMG-HH-X'],
           ('raises', 'SystemExit', [1], None, ('FileNotFoundError', '[Errno 2] No such file'), False),
           '',
           '2\n',
           "[('fsspec.get_mapper', ('file://TMP/scene',), {}), ('open_image', ('mapper(file://TMP/scene)', "
           "'IMG-HH-X'), {'use_cache': False, 'create_cache': False, 'records_per_chunk': 4096})]",
           [('cache', None), ('scene', None), ('scene/IMG HV Y', 'raw'), ('scene/IMG-HH-X', 'raw')]),
          (['TMP/scene/IMG-HH-X'],
           ('raises', 'SystemExit', [1], None, ('OSError', 'plain message'), False),
           '',
           'plain message\n',
           "[('fsspec.get_mapper', ('file://TMP/scene',), {}), ('open_image', ('mapper(file://TMP/scene)', "
           "'IMG-HH-X'), {'use_cache': False, 'create_cache': False, 'records_per_chunk': 4096})]",
           [('cache', None), ('scene', None), ('scene/IMG HV Y', 'raw'), ('scene/IMG-HH-X', 'raw')]),
          (['TMP/scene/IMG-HH-X'],
           ('raises', 'SystemExit', [1], None, ('PermissionError', "[Errno 13] denied: 'somefile'"), False),
           '',
           '13\n',
           "[('fsspec.get_mapper', ('file://TMP/scene',), {}), ('open_image', ('mapper(file://TMP/scene)', "
           "'IMG-HH-X'), {'use_cache': False, 'create_cache': False, 'records_per_chunk': 4096})]",
           [('cache', None), ('scene', None), ('scene/IMG HV Y', 'raw'), ('scene/IMG-HH-X', 'raw')]),
          (['TMP/scene/IMG-HH-X'],
           ('raises', 'IndexError', ['tuple index out of range'], None, ('OSError', ''), False),
           '',
           '',
           "[('fsspec.get_mapper', ('file://TMP/scene',), {}), ('open_image', ('mapper(file://TMP/scene)', "
           "'IMG-HH-X'), {'use_cache': False, 'create_cache': False, 'records_per_chunk': 4096})]",
           [('cache', None), ('scene', None), ('scene/IMG HV Y', 'raw'), ('scene/IMG-HH-X', 'raw')]),
          (['TMP/scene/IMG-HH-X'],
           ('raises', 'SystemExit', [1], None, ('OSError', "('tuple', 'arg')"), False),
           '',
           "('tuple', 'arg')\n",
           "[('fsspec.get_mapper', ('file://TMP/scene',), {}), ('open_image', ('mapper(file://TMP/scene)', "
           "'IMG-HH-X'), {'use_cache': False, 'create_cache': False, 'records_per_chunk': 4096})]",
           [('cache', None), ('scene', None), ('scene/IMG HV Y', 'raw'), ('scene/IMG-HH-X', 'raw')]),
          (['TMP/scene/IMG-HH-X'],
           ('raises', 'SystemExit', [1], None, ('IsADirectoryError', '[Errno 21] dir'), False),
           '',
           '21\n',
           "[('fsspec.get_mapper', ('file://TMP/scene',), {}), ('open_image', ('mapper(file://TMP/scene)', "
           "'IMG-HH-X'), {'use_cache': False, 'create_cache': False, 'records_per_chunk': 4096}), "
           "('caching.encode', ('group', 'IMG-HH-X'))]",
           [('cache', None), ('scene', None), ('scene/IMG HV Y', 'raw'), ('scene/IMG-HH-X', 'raw')]),
          (['TMP/scene/IMG-HH-X'],
           ('raises', 'ValueError', ['bad header'], None, None, False),
           '',
           '',
           "[('fsspec.get_mapper', ('file://TMP/scene',), {}), ('open_image', ('mapper(file://TMP/scene)', "
           "'IMG-HH-X'), {'use_cache': False, 'create_cache': False, 'records_per_chunk': 4096})]",
           [('cache', None), ('scene', None), ('scene/IMG HV Y', 'raw'), ('scene/IMG-HH-X', 'raw')]),
          (['TMP/scene/IMG-HH-X'],
           ('raises', 'KeyboardInterrupt', [], None, None, False),
           '',
           '',
           "[('fsspec.get_mapper', ('file://TMP/scene',), {}), ('open_image', ('mapper(file://TMP/scene)', "
           "'IMG-HH-X'), {'use_cache': False, 'create_cache': False, 'records_per_chunk': 4096})]",
           [('cache', None), ('scene', None), ('scene/IMG HV Y', 'raw'), ('scene/IMG-HH-X', 'raw')]),
          (['TMP/scene/IMG-HH-X'],
           ('raises', 'TypeError', ['cannot encode'], None, None, False),
           '',
           '',
           "[('fsspec.get_mapper', ('file://TMP/scene',), {}), ('open_image', ('mapper(file://TMP/scene)', "
           "'IMG-HH-X'), {'use_cache': False, 'create_cache': False, 'records_per_chunk': 4096}), "
           "('caching.encode', ('group', 'IMG-HH-X'))]",
           [('cache', None), ('scene', None), ('scene/IMG HV Y', 'raw'), ('scene/IMG-HH-X', 'raw')]),
          (['TMP/scene/IMG-HH-X'],
           ('raises', 'ImportError', ['no backend'], None, None, False),
           '',
           '',
           "[('fsspec.get_mapper', ('file://TMP/scene',), {})]",
           [('cache', None), ('scene', None), ('scene/IMG HV Y', 'raw'), ('scene/IMG-HH-X', 'raw')]),
          (['TMP/scene/IMG-HH-X'],
           ('returns', 'None'),
           '',
           '',
           "[('fsspec.get_mapper', ('file://TMP/scene',), {}), ('open_image', ('mapper(file://TMP/scene)', "
           "'IMG-HH-X'), {'use_cache': False, 'create_cache': False, 'records_per_chunk': 4096}), "
           "('caching.encode', ('group', 'IMG-HH-X'))]",
           [('cache', None),
            ('scene', None),
            ('scene/IMG HV Y', 'raw'),
            ('scene/IMG-HH-X', 'raw'),
            ('scene/IMG-HH-X.index', "encoded('group', 'IMG-HH-X')")]),
          (['TMP/scene/IMG-HH-X', '--rpc', '100'],
           ('returns', 'None'),
           '',
           '',
           "[('fsspec.get_mapper', ('file://TMP/scene',), {}), ('open_image', ('mapper(file://TMP/scene)', "
           "'IMG-HH-X'), {'use_cache': False, 'create_cache': False, 'records_per_chunk': 100}), "
           "('caching.encode', ('group', 'IMG-HH-X'))]",
           [('cache', None),
            ('scene', None),
            ('scene/IMG HV Y', 'raw'),
            ('scene/IMG-HH-X', 'raw'),
            ('scene/IMG-HH-X.index', "encoded('group', 'IMG-HH-X')")]),
          (['--rpc', '--', 'TMP/scene/IMG-HH-X'],
           ('returns', 'None'),
           '',
           '',
           "[('fsspec.get_mapper', ('file://TMP/scene',), {}), ('open_image', ('mapper(file://TMP/scene)', "
           "'IMG-HH-X'), {'use_cache': False, 'create_cache': False, 'records_per_chunk': None}), "
           "('caching.encode', ('group', 'IMG-HH-X'))]",
           [('cache', None),
            ('scene', None),
            ('scene/IMG HV Y', 'raw'),
            ('scene/IMG-HH-X', 'raw'),
            ('scene/IMG-HH-X.index', "encoded('group', 'IMG-HH-X')")]),
          (['--rpc=-1', 'TMP/scene/IMG-HH-X', 'TMP/cache'],
           ('returns', 'None'),
           '',
           '',
           "[('fsspec.get_mapper', ('file://TMP/scene',), {}), ('open_image', ('mapper(file://TMP/scene)', "
           "'IMG-HH-X'), {'use_cache': False, 'create_cache': False, 'records_per_chunk': -1}), "
           "('caching.encode', ('group', 'IMG-HH-X'))]",
           [('cache', None),
            ('cache/IMG-HH-X.index', "encoded('group', 'IMG-HH-X')"),
            ('scene', None),
            ('scene/IMG HV Y', 'raw'),
            ('scene/IMG-HH-X', 'raw'),
            ('scene/IMG-HH-X.index', "encoded('group', 'IMG-HH-X')")]),
          (['TMP/scene/IMG HV Y', 'TMP/cache'],
           ('returns', 'None'),
           '',
           '',
           "[('fsspec.get_mapper', ('file://TMP/scene',), {}), ('open_image', ('mapper(file://TMP/scene)', "
           "'IMG HV Y'), {'use_cache': False, 'create_cache': False, 'records_per_chunk': 4096}), "
           "('caching.encode', ('group', 'IMG HV Y'))]",
           [('cache', None),
            ('cache/IMG HV Y.index', "encoded('group', 'IMG HV Y')"),
            ('cache/IMG-HH-X.index', "encoded('group', 'IMG-HH-X')"),
            ('scene', None),
            ('scene/IMG HV Y', 'raw'),
            ('scene/IMG-HH-X', 'raw'),
            ('scene/IMG-HH-X.index', "encoded('group', 'IMG-HH-X')")]),
          (['TMP/scene/IMG-HH-X', 'TMP/cache/'],
           ('returns', 'None'),
           '',
           '',
           "[('fsspec.get_mapper', ('file://TMP/scene',), {}), ('open_image', ('mapper(file://TMP/scene)', "
           "'IMG-HH-X'), {'use_cache': False, 'create_cache': False, 'records_per_chunk': 4096}), "
           "('caching.encode', ('group', 'IMG-HH-X'))]",
           [('cache', None),
            ('cache/IMG HV Y.index', "encoded('group', 'IMG HV Y')"),
            ('cache/IMG-HH-X.index', "encoded('group', 'IMG-HH-X')"),
            ('scene', None),
            ('scene/IMG HV Y', 'raw'),
            ('scene/IMG-HH-X', 'raw'),
            ('scene/IMG-HH-X.index', "encoded('group', 'IMG-HH-X')")]),
          (['TMP/scene/IMG-HH-X', 'TMP/cache/blocked'],
           ('raises',
            'SystemExit',
            [1],
            None,
            ('IsADirectoryError', "[Errno 21] Is a directory: 'TMP/cache/blocked/IMG-HH-X.index'"),
            False),
           '',
           '21\n',
           "[('fsspec.get_mapper', ('file://TMP/scene',), {}), ('open_image', ('mapper(file://TMP/scene)', "
           "'IMG-HH-X'), {'use_cache': False, 'create_cache': False, 'records_per_chunk': 4096}), "
           "('caching.encode', ('group', 'IMG-HH-X'))]",
           [('cache', None),
            ('cache/IMG HV Y.index', "encoded('group', 'IMG HV Y')"),
            ('cache/IMG-HH-X.index', "encoded('group', 'IMG-HH-X')"),
            ('cache/blocked', None),
            ('cache/blocked/IMG-HH-X.index', None),
            ('scene', None),
            ('scene/IMG HV Y', 'raw'),
            ('scene/IMG-HH-X', 'raw'),
            ('scene/IMG-HH-X.index', "encoded('group', 'IMG-HH-X')")]),
          (['IMG-HH-X'],
           ('raises', 'ValueError', ["relative path can't be expressed as a file URI"], None, None, False),
           '',
           '',
           '[]',
           [('cache', None),
            ('cache/IMG HV Y.index', "encoded('group', 'IMG HV Y')"),
            ('cache/IMG-HH-X.index', "encoded('group', 'IMG-HH-X')"),
            ('cache/blocked', None),
            ('cache/blocked/IMG-HH-X.index', None),
            ('scene', None),
            ('scene/IMG HV Y', 'raw'),
            ('scene/IMG-HH-X', 'raw'),
            ('scene/IMG-HH-X.index', "encoded('group', 'IMG-HH-X')")]),
          (['IMG-HH-X', '../cache'],
           ('raises', 'ValueError', ["relative path can't be expressed as a file URI"], None, None, False),
           '',
           '',
           '[]',
           [('cache', None),
            ('cache/IMG HV Y.index', "encoded('group', 'IMG HV Y')"),
            ('cache/IMG-HH-X.index', "encoded('group', 'IMG-HH-X')"),
            ('cache/blocked', None),
            ('cache/blocked/IMG-HH-X.index', None),
            ('scene', None),
            ('scene/IMG HV Y', 'raw'),
            ('scene/IMG-HH-X', 'raw'),
            ('scene/IMG-HH-X.index', "encoded('group', 'IMG-HH-X')")])]}


def test_equivalence():
    actual = run()
    assert sorted(actual) == sorted(EXPECTED)
    for name in actual:
        assert len(actual[name]) == len(EXPECTED[name])
        for index, (got, want) in enumerate(zip(actual[name], EXPECTED[name])):
            assert got == want, f"{name} case {index}: {got!r} != {want!r}"


def test_public_names():
    for name in ("argparse", "pathlib", "sys", "fsspec", "caching", "open_image"):
        assert hasattr(cli, name), name
    assert callable(cli.create_cache) and callable(cli.main)
    from ceos_alos2.sar_image import __main__  # noqa: F401
    import inspect

    assert list(inspect.signature(cli.create_cache).parameters) == [
        "image_path",
        "cache_root",
        "records_per_chunk",
    ]
    assert list(inspect.signature(cli.main).parameters) == []


if __name__ == "__main__":
    if "--record" in sys.argv:
        pprint.pprint(run(), width=110)
        sys.exit(0)
    test_equivalence()
    test_public_names()
    print(f"ok: {len(EXPECTED['fake'])} + {len(EXPECTED['real'])} cases")
