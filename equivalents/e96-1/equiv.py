"""Equivalence check for refactoring 1 (ascii adapters of ceos_alos2.datatypes).

Run as a script (``python equiv.py``) or through pytest.  Every expectation
below was recorded from the unchanged code at HEAD.
"""

import inspect
import math

import construct
from construct import Int8ub, Struct

from ceos_alos2 import datatypes
from ceos_alos2.sar_image.file_descriptor import file_descriptor_record


def outcome(func, *args, **kwargs):
    """Normalised description of a call: value with its type, or the exception."""
    try:
        value = func(*args, **kwargs)
    except Exception as exc:  # noqa: BLE001
        cause = type(exc.__cause__).__name__
        context = type(exc.__context__).__name__
        return ("raise", type(exc).__name__, str(exc), cause, context)
    return ("value", type(value).__name__, repr(value))


def shape(con):
    """Layout of an adapter: class names and parameters down to the leaf."""
    layers = []
    while True:
        entry = [type(con).__name__, con.name]
        for attr in ("length", "encoding", "fmtstr"):
            if attr in vars(con):
                entry.append((attr, vars(con)[attr]))
        if isinstance(con, Struct):
            entry.append([shape(sub) for sub in con.subcons])
            layers.append(entry)
            return layers
        layers.append(entry)
        if not hasattr(con, "subcon"):
            return layers
        con = con.subcon


def text_fields(subcons, values):
    """Blank-filled bytes for a sequence of text fields, with some of them given."""
    chunks = []
    for sub in subcons:
        if isinstance(sub.subcon, Struct):
            chunks.append(text_fields(sub.subcon.subcons, values))
        else:
            chunks.append(values.get(sub.name, b"").ljust(sub.sizeof()))
    return b"".join(chunks)


INTEGER_INPUTS = [
    (2, b"15"),
    (4, b"3989"),
    (4, b"  16"),
    (4, b"16  "),
    (4, b" 7  "),
    (4, b"    "),
    (4, b"\x00\x00\x00\x00"),
    (4, b"12\x00\x00"),
    (4, b"\t\n 5"),
    (4, b"-  5"),
    (4, b"  -5"),
    (4, b"+012"),
    (4, b"1_00"),
    (4, b"1.5 "),
    (4, b"abcd"),
    (4, b"0x1f"),
    (4, b"\xff123"),
    (4, b"12"),
    (4, b"123456"),
    (0, b""),
    (0, b"77"),
    (1, b"\x1c"),
    (8, b"00000000"),
    (8, b"  1e3   "),
]

FLOAT_INPUTS = [
    (8, b"1558.423"),
    (8, b" 165.820"),
    (8, b"        "),
    (8, b"\x00" * 8),
    (8, b"nan     "),
    (8, b"  -inf  "),
    (8, b"Infinity"),
    (8, b"  1e3   "),
    (8, b"1_0.5   "),
    (8, b"   -0.0 "),
    (8, b"   .    "),
    (8, b"1,5     "),
    (8, b"0x10    "),
    (8, b"12 34   "),
    (8, b"\xe9       "),
    (8, b"1.5"),
    (16, b"162436598487.832"),
    (16, b"     6598487.832"),
    (16, b"1.7976931348623e+309"[:16]),
    (0, b""),
    (3, b"\t1\n"),
]

COMPLEX_INPUTS = [
    (8, b"1.558.42"),
    (8, b"        "),
    (8, b"1.5     "),
    (8, b"    2.5 "),
    (8, b" inf 1.0"),
    (8, b" 1.0 inf"),
    (8, b"-inf-inf"),
    (8, b"-0.0-0.0"),
    (8, b" nan 1.0"),
    (8, b"abcd1.00"),
    (8, b"1.00abcd"),
    (8, b"1.00"),
    (9, b"1.558.42X"),
    (7, b"1.52.5zz"),
    (1, b"5"),
    (0, b""),
    (16, b"162.3659487.8321"),
    (16, b" 62.3659 87.8321"),
]

STRING_INPUTS = [
    (4, b"ALOS"),
    (4, b"abc "),
    (4, b" abc"),
    (4, b"a c "),
    (4, b"    "),
    (4, b"\x00\x00\x00\x00"),
    (4, b"ab\x00\x00"),
    (4, b"\x00\x00ab"),
    (4, b"\t\r\nx"),
    (4, b"\x1c\x1d x"),
    (4, b"\xc3\xa9  "),
    (4, b"abc"),
    (6, b"abcdef-and-more"),
    (0, b""),
]

EXPECTED = {'integer': [('value', 'int', '15'),
             ('value', 'int', '3989'),
             ('value', 'int', '16'),
             ('value', 'int', '16'),
             ('value', 'int', '7'),
             ('value', 'int', '-1'),
             ('value', 'int', '-1'),
             ('value', 'int', '12'),
             ('value', 'int', '5'),
             ('raise',
              'ValueError',
              "invalid literal for int() with base 10: '-  5'",
              'NoneType',
              'NoneType'),
             ('value', 'int', '-5'),
             ('value', 'int', '12'),
             ('value', 'int', '100'),
             ('raise',
              'ValueError',
              "invalid literal for int() with base 10: '1.5'",
              'NoneType',
              'NoneType'),
             ('raise',
              'ValueError',
              "invalid literal for int() with base 10: 'abcd'",
              'NoneType',
              'NoneType'),
             ('raise',
              'ValueError',
              "invalid literal for int() with base 10: '0x1f'",
              'NoneType',
              'NoneType'),
             ('raise',
              'StringError',
              "cannot use encoding 'ascii' to decode b'\\xff123'",
              'NoneType',
              'UnicodeDecodeError'),
             ('raise',
              'StreamError',
              'Error in path (parsing)\n'
              'stream read less than specified amount, expected 4, found 2',
              'NoneType',
              'NoneType'),
             ('value', 'int', '1234'),
             ('value', 'int', '-1'),
             ('value', 'int', '-1'),
             ('value', 'int', '-1'),
             ('value', 'int', '0'),
             ('raise',
              'ValueError',
              "invalid literal for int() with base 10: '1e3'",
              'NoneType',
              'NoneType')],
 'float': [('value', 'float', '1558.423'),
           ('value', 'float', '165.82'),
           ('value', 'float', 'nan'),
           ('value', 'float', 'nan'),
           ('value', 'float', 'nan'),
           ('value', 'float', '-inf'),
           ('value', 'float', 'inf'),
           ('value', 'float', '1000.0'),
           ('value', 'float', '10.5'),
           ('value', 'float', '-0.0'),
           ('raise',
            'ValueError',
            "could not convert string to float: '.'",
            'NoneType',
            'NoneType'),
           ('raise',
            'ValueError',
            "could not convert string to float: '1,5'",
            'NoneType',
            'NoneType'),
           ('raise',
            'ValueError',
            "could not convert string to float: '0x10'",
            'NoneType',
            'NoneType'),
           ('raise',
            'ValueError',
            "could not convert string to float: '12 34'",
            'NoneType',
            'NoneType'),
           ('raise',
            'StringError',
            "cannot use encoding 'ascii' to decode b'\\xe9       '",
            'NoneType',
            'UnicodeDecodeError'),
           ('raise',
            'StreamError',
            'Error in path (parsing)\nstream read less than specified amount, expected 8, found 3',
            'NoneType',
            'NoneType'),
           ('value', 'float', '162436598487.832'),
           ('value', 'float', '6598487.832'),
           ('raise',
            'ValueError',
            "could not convert string to float: '1.7976931348623e'",
            'NoneType',
            'NoneType'),
           ('value', 'float', 'nan'),
           ('value', 'float', '1.0')],
 'complex': [('value', 'complex', '(1.55+8.42j)'),
             ('value', 'complex', '(nan+nanj)'),
             ('value', 'complex', '(nan+nanj)'),
             ('value', 'complex', '(nan+2.5j)'),
             ('value', 'complex', '(inf+1j)'),
             ('value', 'complex', '(nan+infj)'),
             ('value', 'complex', '(nan-infj)'),
             ('value', 'complex', '(-0+0j)'),
             ('value', 'complex', '(nan+1j)'),
             ('raise',
              'ValueError',
              "could not convert string to float: 'abcd'",
              'NoneType',
              'NoneType'),
             ('raise',
              'ValueError',
              "could not convert string to float: 'abcd'",
              'NoneType',
              'NoneType'),
             ('raise',
              'StreamError',
              'Error in path (parsing) -> imaginary\n'
              'stream read less than specified amount, expected 4, found 0',
              'NoneType',
              'NoneType'),
             ('value', 'complex', '(1.55+8.42j)'),
             ('value', 'complex', '(1.5+2.5j)'),
             ('value', 'complex', '(nan+nanj)'),
             ('value', 'complex', '(nan+nanj)'),
             ('value', 'complex', '(162.3659+487.8321j)'),
             ('value', 'complex', '(62.3659+87.8321j)')],
 'string': [('value', 'str', "'ALOS'"),
            ('value', 'str', "'abc'"),
            ('value', 'str', "'abc'"),
            ('value', 'str', "'a c'"),
            ('value', 'str', "''"),
            ('value', 'str', "''"),
            ('value', 'str', "'ab'"),
            ('value', 'str', "'\\x00\\x00ab'"),
            ('value', 'str', "'x'"),
            ('value', 'str', "'x'"),
            ('raise',
             'StringError',
             "cannot use encoding 'ascii' to decode b'\\xc3\\xa9  '",
             'NoneType',
             'UnicodeDecodeError'),
            ('raise',
             'StreamError',
             'Error in path (parsing)\nstream read less than specified amount, expected 4, found 3',
             'NoneType',
             'NoneType'),
            ('value', 'str', "'abcdef'"),
            ('value', 'str', "''")],
 'construct-AsciiInteger': [('value',
                             'list',
                             "[['AsciiInteger', None], ['StringEncoded', None, ('encoding', "
                             "'ascii')], ['FixedSized', None, ('length', -1)], ['NullStripped', "
                             "None], ['GreedyBytes', None]]"),
                            ('value',
                             'list',
                             "[['AsciiInteger', None], ['StringEncoded', None, ('encoding', "
                             "'ascii')], ['FixedSized', None, ('length', 2.0)], ['NullStripped', "
                             "None], ['GreedyBytes', None]]"),
                            ('value',
                             'list',
                             "[['AsciiInteger', None], ['StringEncoded', None, ('encoding', "
                             "'ascii')], ['FixedSized', None, ('length', 3.5)], ['NullStripped', "
                             "None], ['GreedyBytes', None]]"),
                            ('value',
                             'list',
                             "[['AsciiInteger', None], ['StringEncoded', None, ('encoding', "
                             "'ascii')], ['FixedSized', None, ('length', '4')], ['NullStripped', "
                             "None], ['GreedyBytes', None]]"),
                            ('value',
                             'list',
                             "[['AsciiInteger', None], ['StringEncoded', None, ('encoding', "
                             "'ascii')], ['FixedSized', None, ('length', None)], ['NullStripped', "
                             "None], ['GreedyBytes', None]]"),
                            ('value',
                             'list',
                             "[['AsciiInteger', None], ['StringEncoded', None, ('encoding', "
                             "'ascii')], ['FixedSized', None, ('length', True)], ['NullStripped', "
                             "None], ['GreedyBytes', None]]"),
                            ('value',
                             'list',
                             "[['AsciiInteger', None], ['StringEncoded', None, ('encoding', "
                             "'ascii')], ['FixedSized', None, ('length', ())], ['NullStripped', "
                             "None], ['GreedyBytes', None]]"),
                            ('value',
                             'list',
                             "[['AsciiInteger', None], ['StringEncoded', None, ('encoding', "
                             "'ascii')], ['FixedSized', None, ('length', this['n'])], "
                             "['NullStripped', None], ['GreedyBytes', None]]")],
 'parse-odd-AsciiInteger': [('raise',
                             'PaddingError',
                             'Error in path (parsing)\nlength cannot be negative',
                             'NoneType',
                             'NoneType'),
                            ('raise',
                             'StreamError',
                             'Error in path (parsing)\nstream.read() failed, requested 2.0 bytes',
                             'NoneType',
                             'TypeError'),
                            ('raise',
                             'StreamError',
                             'Error in path (parsing)\nstream.read() failed, requested 3.5 bytes',
                             'NoneType',
                             'TypeError'),
                            ('raise',
                             'TypeError',
                             "'<' not supported between instances of 'str' and 'int'",
                             'NoneType',
                             'NoneType'),
                            ('raise',
                             'TypeError',
                             "'<' not supported between instances of 'NoneType' and 'int'",
                             'NoneType',
                             'NoneType'),
                            ('value', 'int', '1'),
                            ('raise',
                             'TypeError',
                             "'<' not supported between instances of 'tuple' and 'int'",
                             'NoneType',
                             'NoneType'),
                            ('raise', 'KeyError', "'n'", 'NoneType', 'NoneType')],
 'sizeof-AsciiInteger': [('value', 'int', '0'),
                         ('value', 'int', '1'),
                         ('value', 'int', '7'),
                         ('value', 'int', '8')],
 'build-AsciiInteger': [('raise', 'NotImplementedError', '', 'NoneType', 'NoneType'),
                        ('raise', 'NotImplementedError', '', 'NoneType', 'NoneType'),
                        ('raise', 'NotImplementedError', '', 'NoneType', 'NoneType'),
                        ('raise', 'NotImplementedError', '', 'NoneType', 'NoneType'),
                        ('raise', 'NotImplementedError', '', 'NoneType', 'NoneType')],
 'shape-AsciiInteger': [['AsciiInteger', None],
                        ['StringEncoded', None, ('encoding', 'ascii')],
                        ['FixedSized', None, ('length', 10)],
                        ['NullStripped', None],
                        ['GreedyBytes', None]],
 'bases-AsciiInteger': ['AsciiInteger', 'Adapter', 'Subconstruct', 'Construct', 'object'],
 'members-AsciiInteger': ['__doc__', '__init__', '__module__', '_decode', '_encode'],
 'signature-AsciiInteger': [['self', 'n_bytes'],
                            ['self', 'obj', 'context', 'path'],
                            ['self', 'obj', 'context', 'path']],
 'construct-AsciiFloat': [('value',
                           'list',
                           "[['AsciiFloat', None], ['StringEncoded', None, ('encoding', 'ascii')], "
                           "['FixedSized', None, ('length', -1)], ['NullStripped', None], "
                           "['GreedyBytes', None]]"),
                          ('value',
                           'list',
                           "[['AsciiFloat', None], ['StringEncoded', None, ('encoding', 'ascii')], "
                           "['FixedSized', None, ('length', 2.0)], ['NullStripped', None], "
                           "['GreedyBytes', None]]"),
                          ('value',
                           'list',
                           "[['AsciiFloat', None], ['StringEncoded', None, ('encoding', 'ascii')], "
                           "['FixedSized', None, ('length', 3.5)], ['NullStripped', None], "
                           "['GreedyBytes', None]]"),
                          ('value',
                           'list',
                           "[['AsciiFloat', None], ['StringEncoded', None, ('encoding', 'ascii')], "
                           "['FixedSized', None, ('length', '4')], ['NullStripped', None], "
                           "['GreedyBytes', None]]"),
                          ('value',
                           'list',
                           "[['AsciiFloat', None], ['StringEncoded', None, ('encoding', 'ascii')], "
                           "['FixedSized', None, ('length', None)], ['NullStripped', None], "
                           "['GreedyBytes', None]]"),
                          ('value',
                           'list',
                           "[['AsciiFloat', None], ['StringEncoded', None, ('encoding', 'ascii')], "
                           "['FixedSized', None, ('length', True)], ['NullStripped', None], "
                           "['GreedyBytes', None]]"),
                          ('value',
                           'list',
                           "[['AsciiFloat', None], ['StringEncoded', None, ('encoding', 'ascii')], "
                           "['FixedSized', None, ('length', ())], ['NullStripped', None], "
                           "['GreedyBytes', None]]"),
                          ('value',
                           'list',
                           "[['AsciiFloat', None], ['StringEncoded', None, ('encoding', 'ascii')], "
                           "['FixedSized', None, ('length', this['n'])], ['NullStripped', None], "
                           "['GreedyBytes', None]]")],
 'parse-odd-AsciiFloat': [('raise',
                           'PaddingError',
                           'Error in path (parsing)\nlength cannot be negative',
                           'NoneType',
                           'NoneType'),
                          ('raise',
                           'StreamError',
                           'Error in path (parsing)\nstream.read() failed, requested 2.0 bytes',
                           'NoneType',
                           'TypeError'),
                          ('raise',
                           'StreamError',
                           'Error in path (parsing)\nstream.read() failed, requested 3.5 bytes',
                           'NoneType',
                           'TypeError'),
                          ('raise',
                           'TypeError',
                           "'<' not supported between instances of 'str' and 'int'",
                           'NoneType',
                           'NoneType'),
                          ('raise',
                           'TypeError',
                           "'<' not supported between instances of 'NoneType' and 'int'",
                           'NoneType',
                           'NoneType'),
                          ('value', 'float', '1.0'),
                          ('raise',
                           'TypeError',
                           "'<' not supported between instances of 'tuple' and 'int'",
                           'NoneType',
                           'NoneType'),
                          ('raise', 'KeyError', "'n'", 'NoneType', 'NoneType')],
 'sizeof-AsciiFloat': [('value', 'int', '0'),
                       ('value', 'int', '1'),
                       ('value', 'int', '7'),
                       ('value', 'int', '8')],
 'build-AsciiFloat': [('raise', 'NotImplementedError', '', 'NoneType', 'NoneType'),
                      ('raise', 'NotImplementedError', '', 'NoneType', 'NoneType'),
                      ('raise', 'NotImplementedError', '', 'NoneType', 'NoneType'),
                      ('raise', 'NotImplementedError', '', 'NoneType', 'NoneType'),
                      ('raise', 'NotImplementedError', '', 'NoneType', 'NoneType')],
 'shape-AsciiFloat': [['AsciiFloat', None],
                      ['StringEncoded', None, ('encoding', 'ascii')],
                      ['FixedSized', None, ('length', 10)],
                      ['NullStripped', None],
                      ['GreedyBytes', None]],
 'bases-AsciiFloat': ['AsciiFloat', 'Adapter', 'Subconstruct', 'Construct', 'object'],
 'members-AsciiFloat': ['__doc__', '__init__', '__module__', '_decode', '_encode'],
 'signature-AsciiFloat': [['self', 'n_bytes'],
                          ['self', 'obj', 'context', 'path'],
                          ['self', 'obj', 'context', 'path']],
 'construct-AsciiComplex': [('value',
                             'list',
                             "[['AsciiComplex', None], ['Struct', None, [[['Renamed', 'real'], "
                             "['AsciiFloat', None], ['StringEncoded', None, ('encoding', "
                             "'ascii')], ['FixedSized', None, ('length', -1)], ['NullStripped', "
                             "None], ['GreedyBytes', None]], [['Renamed', 'imaginary'], "
                             "['AsciiFloat', None], ['StringEncoded', None, ('encoding', "
                             "'ascii')], ['FixedSized', None, ('length', -1)], ['NullStripped', "
                             "None], ['GreedyBytes', None]]]]]"),
                            ('value',
                             'list',
                             "[['AsciiComplex', None], ['Struct', None, [[['Renamed', 'real'], "
                             "['AsciiFloat', None], ['StringEncoded', None, ('encoding', "
                             "'ascii')], ['FixedSized', None, ('length', 1.0)], ['NullStripped', "
                             "None], ['GreedyBytes', None]], [['Renamed', 'imaginary'], "
                             "['AsciiFloat', None], ['StringEncoded', None, ('encoding', "
                             "'ascii')], ['FixedSized', None, ('length', 1.0)], ['NullStripped', "
                             "None], ['GreedyBytes', None]]]]]"),
                            ('value',
                             'list',
                             "[['AsciiComplex', None], ['Struct', None, [[['Renamed', 'real'], "
                             "['AsciiFloat', None], ['StringEncoded', None, ('encoding', "
                             "'ascii')], ['FixedSized', None, ('length', 1.0)], ['NullStripped', "
                             "None], ['GreedyBytes', None]], [['Renamed', 'imaginary'], "
                             "['AsciiFloat', None], ['StringEncoded', None, ('encoding', "
                             "'ascii')], ['FixedSized', None, ('length', 1.0)], ['NullStripped', "
                             "None], ['GreedyBytes', None]]]]]"),
                            ('raise',
                             'TypeError',
                             "unsupported operand type(s) for //: 'str' and 'int'",
                             'NoneType',
                             'NoneType'),
                            ('raise',
                             'TypeError',
                             "unsupported operand type(s) for //: 'NoneType' and 'int'",
                             'NoneType',
                             'NoneType'),
                            ('value',
                             'list',
                             "[['AsciiComplex', None], ['Struct', None, [[['Renamed', 'real'], "
                             "['AsciiFloat', None], ['StringEncoded', None, ('encoding', "
                             "'ascii')], ['FixedSized', None, ('length', 0)], ['NullStripped', "
                             "None], ['GreedyBytes', None]], [['Renamed', 'imaginary'], "
                             "['AsciiFloat', None], ['StringEncoded', None, ('encoding', "
                             "'ascii')], ['FixedSized', None, ('length', 0)], ['NullStripped', "
                             "None], ['GreedyBytes', None]]]]]"),
                            ('raise',
                             'TypeError',
                             "unsupported operand type(s) for //: 'tuple' and 'int'",
                             'NoneType',
                             'NoneType'),
                            ('value',
                             'list',
                             "[['AsciiComplex', None], ['Struct', None, [[['Renamed', 'real'], "
                             "['AsciiFloat', None], ['StringEncoded', None, ('encoding', "
                             "'ascii')], ['FixedSized', None, ('length', (this['n'] // 2))], "
                             "['NullStripped', None], ['GreedyBytes', None]], [['Renamed', "
                             "'imaginary'], ['AsciiFloat', None], ['StringEncoded', None, "
                             "('encoding', 'ascii')], ['FixedSized', None, ('length', (this['n'] "
                             "// 2))], ['NullStripped', None], ['GreedyBytes', None]]]]]")],
 'parse-odd-AsciiComplex': [('raise',
                             'PaddingError',
                             'Error in path (parsing) -> real\nlength cannot be negative',
                             'NoneType',
                             'NoneType'),
                            ('raise',
                             'StreamError',
                             'Error in path (parsing) -> real\n'
                             'stream.read() failed, requested 1.0 bytes',
                             'NoneType',
                             'TypeError'),
                            ('raise',
                             'StreamError',
                             'Error in path (parsing) -> real\n'
                             'stream.read() failed, requested 1.0 bytes',
                             'NoneType',
                             'TypeError'),
                            ('raise',
                             'TypeError',
                             "unsupported operand type(s) for //: 'str' and 'int'",
                             'NoneType',
                             'NoneType'),
                            ('raise',
                             'TypeError',
                             "unsupported operand type(s) for //: 'NoneType' and 'int'",
                             'NoneType',
                             'NoneType'),
                            ('value', 'complex', '(nan+nanj)'),
                            ('raise',
                             'TypeError',
                             "unsupported operand type(s) for //: 'tuple' and 'int'",
                             'NoneType',
                             'NoneType'),
                            ('raise', 'KeyError', "'n'", 'NoneType', 'NoneType')],
 'sizeof-AsciiComplex': [('value', 'int', '0'),
                         ('value', 'int', '0'),
                         ('value', 'int', '6'),
                         ('value', 'int', '8')],
 'build-AsciiComplex': [('raise', 'NotImplementedError', '', 'NoneType', 'NoneType'),
                        ('raise', 'NotImplementedError', '', 'NoneType', 'NoneType'),
                        ('raise', 'NotImplementedError', '', 'NoneType', 'NoneType'),
                        ('raise', 'NotImplementedError', '', 'NoneType', 'NoneType'),
                        ('raise', 'NotImplementedError', '', 'NoneType', 'NoneType')],
 'shape-AsciiComplex': [['AsciiComplex', None],
                        ['Struct',
                         None,
                         [[['Renamed', 'real'],
                           ['AsciiFloat', None],
                           ['StringEncoded', None, ('encoding', 'ascii')],
                           ['FixedSized', None, ('length', 5)],
                           ['NullStripped', None],
                           ['GreedyBytes', None]],
                          [['Renamed', 'imaginary'],
                           ['AsciiFloat', None],
                           ['StringEncoded', None, ('encoding', 'ascii')],
                           ['FixedSized', None, ('length', 5)],
                           ['NullStripped', None],
                           ['GreedyBytes', None]]]]],
 'bases-AsciiComplex': ['AsciiComplex', 'Adapter', 'Subconstruct', 'Construct', 'object'],
 'members-AsciiComplex': ['__doc__', '__init__', '__module__', '_decode', '_encode'],
 'signature-AsciiComplex': [['self', 'n_bytes'],
                            ['self', 'obj', 'context', 'path'],
                            ['self', 'obj', 'context', 'path']],
 'construct-PaddedString': [('value',
                             'list',
                             "[['PaddedString', None], ['StringEncoded', None, ('encoding', "
                             "'ascii')], ['FixedSized', None, ('length', -1)], ['NullStripped', "
                             "None], ['GreedyBytes', None]]"),
                            ('value',
                             'list',
                             "[['PaddedString', None], ['StringEncoded', None, ('encoding', "
                             "'ascii')], ['FixedSized', None, ('length', 2.0)], ['NullStripped', "
                             "None], ['GreedyBytes', None]]"),
                            ('value',
                             'list',
                             "[['PaddedString', None], ['StringEncoded', None, ('encoding', "
                             "'ascii')], ['FixedSized', None, ('length', 3.5)], ['NullStripped', "
                             "None], ['GreedyBytes', None]]"),
                            ('value',
                             'list',
                             "[['PaddedString', None], ['StringEncoded', None, ('encoding', "
                             "'ascii')], ['FixedSized', None, ('length', '4')], ['NullStripped', "
                             "None], ['GreedyBytes', None]]"),
                            ('value',
                             'list',
                             "[['PaddedString', None], ['StringEncoded', None, ('encoding', "
                             "'ascii')], ['FixedSized', None, ('length', None)], ['NullStripped', "
                             "None], ['GreedyBytes', None]]"),
                            ('value',
                             'list',
                             "[['PaddedString', None], ['StringEncoded', None, ('encoding', "
                             "'ascii')], ['FixedSized', None, ('length', True)], ['NullStripped', "
                             "None], ['GreedyBytes', None]]"),
                            ('value',
                             'list',
                             "[['PaddedString', None], ['StringEncoded', None, ('encoding', "
                             "'ascii')], ['FixedSized', None, ('length', ())], ['NullStripped', "
                             "None], ['GreedyBytes', None]]"),
                            ('value',
                             'list',
                             "[['PaddedString', None], ['StringEncoded', None, ('encoding', "
                             "'ascii')], ['FixedSized', None, ('length', this['n'])], "
                             "['NullStripped', None], ['GreedyBytes', None]]")],
 'parse-odd-PaddedString': [('raise',
                             'PaddingError',
                             'Error in path (parsing)\nlength cannot be negative',
                             'NoneType',
                             'NoneType'),
                            ('raise',
                             'StreamError',
                             'Error in path (parsing)\nstream.read() failed, requested 2.0 bytes',
                             'NoneType',
                             'TypeError'),
                            ('raise',
                             'StreamError',
                             'Error in path (parsing)\nstream.read() failed, requested 3.5 bytes',
                             'NoneType',
                             'TypeError'),
                            ('raise',
                             'TypeError',
                             "'<' not supported between instances of 'str' and 'int'",
                             'NoneType',
                             'NoneType'),
                            ('raise',
                             'TypeError',
                             "'<' not supported between instances of 'NoneType' and 'int'",
                             'NoneType',
                             'NoneType'),
                            ('value', 'str', "'1'"),
                            ('raise',
                             'TypeError',
                             "'<' not supported between instances of 'tuple' and 'int'",
                             'NoneType',
                             'NoneType'),
                            ('raise', 'KeyError', "'n'", 'NoneType', 'NoneType')],
 'sizeof-PaddedString': [('value', 'int', '0'),
                         ('value', 'int', '1'),
                         ('value', 'int', '7'),
                         ('value', 'int', '8')],
 'build-PaddedString': [('raise', 'NotImplementedError', '', 'NoneType', 'NoneType'),
                        ('raise', 'NotImplementedError', '', 'NoneType', 'NoneType'),
                        ('raise', 'NotImplementedError', '', 'NoneType', 'NoneType'),
                        ('raise', 'NotImplementedError', '', 'NoneType', 'NoneType'),
                        ('raise', 'NotImplementedError', '', 'NoneType', 'NoneType')],
 'shape-PaddedString': [['PaddedString', None],
                        ['StringEncoded', None, ('encoding', 'ascii')],
                        ['FixedSized', None, ('length', 10)],
                        ['NullStripped', None],
                        ['GreedyBytes', None]],
 'bases-PaddedString': ['PaddedString', 'Adapter', 'Subconstruct', 'Construct', 'object'],
 'members-PaddedString': ['__doc__', '__init__', '__module__', '_decode', '_encode'],
 'signature-PaddedString': [['self', 'n_bytes'],
                            ['self', 'obj', 'context', 'path'],
                            ['self', 'obj', 'context', 'path']],
 'context-size': [('raise', 'KeyError', "'n'", 'NoneType', 'NoneType'),
                  ('raise', 'KeyError', "'n'", 'NoneType', 'NoneType'),
                  ('raise', 'KeyError', "'n'", 'NoneType', 'NoneType'),
                  ('raise',
                   'StreamError',
                   'Error in path (parsing) -> i\n'
                   'stream read less than specified amount, expected 5, found 4',
                   'NoneType',
                   'NoneType'),
                  ('raise',
                   'StreamError',
                   'Error in path (parsing) -> n\n'
                   'stream read less than specified amount, expected 1, found 0',
                   'NoneType',
                   'NoneType')],
 'file-descriptor': "['A', 'CEOS-SAR', 1, 'IMG-HH-ALOS2', 3333, 10800, -1, 'IU2', -1, '']",
 'file-descriptor-short': ('raise',
                           'StreamError',
                           'Error in path (parsing) -> scansar_burst_data_information -> blanks\n'
                           'stream read less than specified amount, expected 260, found 259',
                           'NoneType',
                           'NoneType')}


def run_adapter(cls, inputs):
    return [outcome(cls(n_bytes).parse, data) for n_bytes, data in inputs]


def collect():
    results = {
        "integer": run_adapter(datatypes.AsciiInteger, INTEGER_INPUTS),
        "float": run_adapter(datatypes.AsciiFloat, FLOAT_INPUTS),
        "complex": run_adapter(datatypes.AsciiComplex, COMPLEX_INPUTS),
        "string": run_adapter(datatypes.PaddedString, STRING_INPUTS),
    }

    # construction: odd arguments fail (or not) the same way
    odd_sizes = [-1, 2.0, 3.5, "4", None, True, (), construct.this.n]
    for cls in ("AsciiInteger", "AsciiFloat", "AsciiComplex", "PaddedString"):
        adapter = getattr(datatypes, cls)
        results[f"construct-{cls}"] = [
            outcome(lambda size=size: shape(adapter(size))) for size in odd_sizes
        ]
        results[f"parse-odd-{cls}"] = [
            outcome(lambda size=size: adapter(size).parse(b"1.52.5   "), ) for size in odd_sizes
        ]
        results[f"sizeof-{cls}"] = [
            outcome(lambda size=size: adapter(size).sizeof()) for size in (0, 1, 7, 8)
        ]
        results[f"build-{cls}"] = [
            outcome(adapter(4).build, value) for value in (1, "1", 1.0, None, b"ab")
        ]
        results[f"shape-{cls}"] = shape(adapter(10))
        results[f"bases-{cls}"] = [base.__name__ for base in adapter.__mro__]
        results[f"members-{cls}"] = sorted(vars(adapter))
        results[f"signature-{cls}"] = [
            list(inspect.signature(getattr(adapter, name)).parameters)
            for name in ("__init__", "_decode", "_encode")
        ]

    # size given through the context (a callable length)
    framed = Struct(
        "n" / Int8ub,
        "i" / datatypes.AsciiInteger(construct.this.n),
        "f" / datatypes.AsciiFloat(construct.this.n),
        "s" / datatypes.PaddedString(construct.this.n),
        "c" / datatypes.AsciiComplex(construct.this.n),
    )
    results["context-size"] = [
        outcome(lambda data=data: dict(framed.parse(data)).__repr__())
        for data in (
            b"\x04  12 1.5 ab 1.52.5",
            b"\x02  12 1.5 ab 1.52.5",
            b"\x00",
            b"\x05  12",
            b"",
        )
    ]

    # embedded in a real record: the sar image file descriptor is text only
    values = {
        "ascii_ebcdic_flag": b"A ",
        "format_control_document_id": b"CEOS-SAR    ",
        "file_number": b"   1",
        "file_id": b"IMG-HH-ALOS2    ",
        "number_of_sar_data_records": b"  3333",
        "sar_data_record_length": b" 10800",
        "sar_data_format_type_code": b"IU2 ",
    }
    record = b"\x00\x00\x00\x01\x32\xc0\x12\x12\x00\x00\x02\xd0" + text_fields(
        file_descriptor_record.subcons[1:], values
    )
    assert len(record) == 720
    parsed = file_descriptor_record.parse(record)
    results["file-descriptor"] = repr(
        [
            parsed.ascii_ebcdic_flag,
            parsed.format_control_document_id,
            parsed.file_number,
            parsed.file_id,
            parsed.number_of_sar_data_records,
            parsed.sar_data_record_length,
            parsed.location_sequence_number,
            parsed.prefix_suffix_data_locators.sar_data_format_type_code,
            parsed.prefix_suffix_data_locators.number_of_burst_data,
            parsed.scansar_burst_data_information.blanks,
        ]
    )
    results["file-descriptor-short"] = outcome(file_descriptor_record.parse, record[:-1])
    return results


def test_equivalent():
    results = collect()
    assert sorted(results) == sorted(EXPECTED)
    for key, expected in EXPECTED.items():
        assert results[key] == expected, key

    # nan results cannot be told apart by repr alone: check the sign bit, too
    zero = datatypes.AsciiFloat(4).parse(b"-0.0")
    assert zero == 0 and math.copysign(1, zero) == -1
    value = datatypes.AsciiComplex(8).parse(b"-0.0-0.0")
    assert math.copysign(1, value.real) == -1 and math.copysign(1, value.imag) == 1.0
    value = datatypes.AsciiComplex(8).parse(b" inf 1.0")
    assert math.isnan(value.real) is False and value.real == math.inf and value.imag == 1.0
    value = datatypes.AsciiComplex(8).parse(b" 1.0 inf")
    assert math.isnan(value.real) and value.imag == math.inf


if __name__ == "__main__":
    import sys

    if sys.argv[1:] == ["--record"]:
        import pprint

        pprint.pprint(collect(), width=100, sort_dicts=False)
    else:
        test_equivalent()
        print("ok")
