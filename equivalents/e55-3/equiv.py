"""Equivalence check for refactoring 3 (ceos_alos2/sar_leader/facility_related_data.py).

Run as a script (``PYTHONPATH=<worktree> python equiv.py``, exit status 0 on success) or
with pytest (``python -m pytest -q -p no:cacheprovider equiv.py``).  Every case calls one of
the touched functions (``transform_group``, ``transform_auxiliary_file``, ``transform_record5``,
and the caller ``sar_leader.metadata.transform_metadata``) on deep copies of the inputs and
compares the canonical, type- and order-preserving serialisation of the result (or the type
and message of the exception), plus the state of the inputs after the call, with a recording
made with the UNCHANGED code (``python equiv.py --record`` rewrites the recording).  Inputs
are hand-written edge cases and facility related data records parsed by the real construct
declarations from synthesised bytes.  Long serialisations are stored as sha256 digests.
"""
import copy
import hashlib
import math
import pathlib
import pprint
import random
import struct
import sys

import numpy as np

from ceos_alos2.hierarchy import Group, Variable

# --------------------------------------------------------------------------
# canonical, type-preserving and order-preserving serialisation of results
# --------------------------------------------------------------------------


def canon(obj):
    if isinstance(obj, Group):
        return (
            "Group",
            obj.path,
            obj.url,
            canon(obj.attrs),
            [(canon(k), canon(v)) for k, v in obj.data.items()],
        )
    if isinstance(obj, Variable):
        return ("Variable", canon(obj.dims), canon(obj.data), canon(obj.attrs))
    if isinstance(obj, np.ndarray):
        if obj.dtype.kind in "mM":
            values = obj.astype("int64").tolist()
        else:
            values = obj.tolist()
        return ("ndarray", str(obj.dtype), obj.shape, canon(values))
    if isinstance(obj, np.generic):
        return ("npscalar", type(obj).__name__, str(obj.dtype), repr(obj.tolist()))
    if isinstance(obj, dict):
        return (type(obj).__name__, [(canon(k), canon(v)) for k, v in obj.items()])
    if isinstance(obj, (list, tuple)):
        return (type(obj).__name__, [canon(v) for v in obj])
    if isinstance(obj, float):
        return ("float", "nan" if math.isnan(obj) else repr(obj))
    if isinstance(obj, complex):
        return ("complex", canon(obj.real), canon(obj.imag))
    if obj is None or isinstance(obj, (bool, int, str, bytes)):
        return (type(obj).__name__, repr(obj))
    if callable(obj):
        return ("callable", getattr(obj, "__name__", type(obj).__name__))
    return ("other", type(obj).__module__, type(obj).__name__, repr(obj))


def run(func, *args, **kwargs):
    """call ``func`` on private copies; record result or exception, and the inputs afterwards"""
    args = copy.deepcopy(args)
    kwargs = copy.deepcopy(kwargs)
    try:
        result = ("ok", canon(func(*args, **kwargs)))
    except Exception as e:  # noqa: BLE001
        result = ("raises", type(e).__name__, str(e))
    return repr((result, ("inputs-after", canon(args), canon(kwargs))))


def digest(text):
    if len(text) <= 300:
        return text
    status = "ok" if text.startswith("(('ok'") else "raises"
    return f"sha256[{status}]:{hashlib.sha256(text.encode()).hexdigest()}:{len(text)}"


# --------------------------------------------------------------------------
# synthesise bytes for a construct declaration (all CEOS fields are fixed
# width ASCII), so that the real parser produces the transformers' inputs
# --------------------------------------------------------------------------


def _ctx_get(expr, ctx):
    return expr(ctx) if callable(expr) else expr


def synthesize(con, rng, overrides=None, blank_rate=0.0):
    """return bytes parsable by ``con``

    ``overrides`` maps dotted paths (array indices omitted) to the decoded value
    the field should have (ints / floats / strings), or to a callable ``(rng) -> value``.
    """
    import construct

    from ceos_alos2 import datatypes

    overrides = overrides or {}

    def text(value, width):
        raw = str(value)
        assert len(raw) <= width, (raw, width)
        return raw.rjust(width).encode("ascii")

    def leaf_value(kind, path, width):
        if path in overrides:
            value = overrides[path]
            return value(rng) if callable(value) else value
        if blank_rate and rng.random() < blank_rate:
            return ""
        if kind == "int":
            return rng.randrange(0, 10 ** min(width - 1, 4))
        if kind == "float":
            return f"{rng.uniform(-1000, 1000):.{max(0, min(5, width - 6))}f}"
        alphabet = "ABCDEFGHIJKLMNOPQRSTUVWXYZ0123456789-"
        return "".join(rng.choice(alphabet) for _ in range(rng.randrange(0, min(width, 12) + 1)))

    def gen(con, ctx, path):
        if isinstance(con, construct.Renamed):
            return gen(con.subcon, ctx, path)
        if isinstance(con, construct.Struct):
            sub = construct.Container()
            sub["_"] = ctx
            chunks = []
            for sc in con.subcons:
                subpath = f"{path}.{sc.name}" if path else sc.name
                data, value = gen(sc, sub, subpath)
                sub[sc.name] = value
                chunks.append(data)
            return b"".join(chunks), sub
        if isinstance(con, construct.Array):
            count = _ctx_get(con.count, ctx)
            chunks, values = [], []
            for _ in range(count):
                data, value = gen(con.subcon, ctx, path)
                chunks.append(data)
                values.append(value)
            return b"".join(chunks), values
        if isinstance(con, construct.FormatField):
            value = overrides.get(path, 0)
            return struct.pack(con.fmtstr, value), value
        if isinstance(con, construct.Enum):
            choices = sorted(con.encmapping.values(), key=repr)
            value = overrides.get(path, None)
            if value is None:
                value = rng.choice(choices)
            width = con.subcon._sizeof(ctx, path)
            return text(value, width), value
        if isinstance(con, datatypes.AsciiInteger):
            width = con._sizeof(ctx, path)
            value = leaf_value("int", path, width)
            return text(value, width), (-1 if value == "" else int(value))
        if isinstance(con, datatypes.AsciiFloat):
            width = con._sizeof(ctx, path)
            value = leaf_value("float", path, width)
            return text(value, width), value
        if isinstance(con, datatypes.PaddedString):
            width = con._sizeof(ctx, path)
            value = leaf_value("str", path, width)
            return text(value, width), value
        if isinstance(con, construct.Adapter):  # Metadata, Factor, AsciiComplex
            return gen(con.subcon, ctx, path)
        raise TypeError(f"cannot synthesise {con!r} at {path}")

    data, _ = gen(con, construct.Container(), "")
    return data


def preamble(record_length, sequence_number=1, subtypes=(18, 10, 18, 20)):
    return {
        "preamble.record_sequence_number": sequence_number,
        "preamble.first_record_subtype": subtypes[0],
        "preamble.record_type": subtypes[1],
        "preamble.second_record_subtype": subtypes[2],
        "preamble.third_record_subtype": subtypes[3],
        "preamble.record_length": record_length,
    }


def parse(con, data):
    from ceos_alos2.utils import to_dict

    return to_dict(con.parse(data))


def sample_records(seed, blank_rate=0.0, designator="UTM-PROJECTION", n_points=3, n_channels=2):
    """parse synthesised bytes of every SAR leader record kind with the real declarations"""
    from ceos_alos2.sar_leader import (
        attitude,
        data_quality_summary,
        dataset_summary,
        facility_related_data,
        map_projection,
        platform_position,
        radiometric_data,
    )

    rng = random.Random(seed)

    def date(rng):
        return f"{rng.randrange(1990, 2030)} {rng.randrange(1, 13):02d} {rng.randrange(1, 29):02d}"

    def timestamp(rng):
        return (
            f"{rng.randrange(1990, 2030)}{rng.randrange(1, 13):02d}{rng.randrange(1, 29):02d}"
            f"{rng.randrange(24):02d}{rng.randrange(60):02d}{rng.randrange(60):02d}"
            f"{rng.randrange(1000):03d}"
        )

    specs = {
        "dataset_summary": (
            dataset_summary.dataset_summary_record,
            preamble(4096) | {"scene_center_time": timestamp},
        ),
        "map_projection": (
            map_projection.map_projection_record,
            preamble(1620) | {"map_projection_designator": designator},
        ),
        "platform_position": (
            platform_position.platform_position_record,
            preamble(4680)
            | {
                "datetime_of_first_point.date": date,
                "datetime_of_first_point.seconds_of_day": lambda rng: f"{rng.uniform(0, 86400):.6f}",
                "occurrence_flag_of_a_leap_second": lambda rng: rng.randrange(2),
            },
        ),
        "attitude": (
            attitude.attitude_record,
            preamble(12 + 4 + n_points * 120 + 20)
            | {
                "number_of_points": n_points,
                "data_points.time.day_of_year": lambda rng: rng.randrange(1, 366),
                "data_points.time.millisecond_of_day": lambda rng: rng.randrange(86400000),
                **{
                    f"data_points.{section}.{name}_error": (lambda rng: rng.randrange(3))
                    for section in ("attitude", "rates")
                    for name in ("pitch", "roll", "yaw")
                },
            },
        ),
        "radiometric_data": (radiometric_data.radiometric_data_record, preamble(9860)),
        "data_quality_summary": (
            data_quality_summary.data_quality_summary_record,
            preamble(1620) | {"number_of_channels": n_channels},
        ),
        "facility_related_data_1": (
            facility_related_data.facility_related_data_record,
            preamble(12 + 4 + 50 + 40) | {"record_sequence_number": lambda rng: rng.randrange(0, 6)},
        ),
        "facility_related_data_5": (
            facility_related_data.facility_related_data_5_record,
            preamble(5000) | {"prf_switching_flag": lambda rng: rng.randrange(2)},
        ),
    }
    rates = {name: blank_rate for name in specs}
    # fields without which the transformers raise are always filled in via the overrides
    return {
        name: parse(con, synthesize(con, rng, overrides, blank_rate=rates[name]))
        for name, (con, overrides) in specs.items()
    }


# --------------------------------------------------------------------------
# harness
# --------------------------------------------------------------------------

BEGIN = "# --- BEGIN " + "EXPECTED (recorded from the unchanged code) ---"
END = "# --- END " + "EXPECTED ---"


def main(build_cases, expected, file):
    cases = build_cases()
    ids = [case_id for case_id, _ in cases]
    assert len(ids) == len(set(ids)), "duplicate case ids"
    actual = {case_id: digest(thunk()) for case_id, thunk in cases}

    if "--record" in sys.argv:
        path = pathlib.Path(file)
        source = path.read_text()
        head, rest = source.split(BEGIN, 1)
        _, tail = rest.split(END, 1)
        block = "EXPECTED = " + pprint.pformat(actual, width=100, sort_dicts=False)
        path.write_text(f"{head}{BEGIN}\n{block}\n{END}{tail}")
        print(f"recorded {len(actual)} cases")
        return 0

    failures = []
    for case_id in ids:
        if case_id not in expected:
            failures.append((case_id, "<not recorded>", actual[case_id]))
        elif expected[case_id] != actual[case_id]:
            failures.append((case_id, expected[case_id], actual[case_id]))
    missing = sorted(set(expected) - set(ids))
    for case_id, want, got in failures:
        print(f"MISMATCH {case_id}\n  expected: {want}\n  actual:   {got}")
    if missing:
        print("cases recorded but not run:", missing)
    n_raises = sum(1 for value in actual.values() if "raises" in value[:16])
    print(
        f"{len(ids) - len(failures)}/{len(ids)} cases identical to the recording"
        f" ({len(ids) - n_raises} results, {n_raises} exceptions)"
    )
    return 1 if failures or missing else 0


# --------------------------------------------------------------------------
# cases: ceos_alos2/sar_leader/facility_related_data.py
# --------------------------------------------------------------------------
import collections

from ceos_alos2.sar_leader import facility_related_data as frd
from ceos_alos2.sar_leader import metadata


class MyList(list):
    pass


def identities(mapping):
    """the helper objects of the module must not leak into / be shared between results"""
    first = frd.transform_group(copy.deepcopy(mapping), "dim")
    second = frd.transform_group(copy.deepcopy(mapping), "dim")
    attrs = [v[2] for v in first[0].values()] + [v[2] for v in second[0].values()]
    return {
        "attrs-distinct": len({id(a) for a in attrs}) == len(attrs),
        "types": [type(v).__name__ for v in first[0].values()],
        "result-type": type(first).__name__,
        "mapping-type": type(first[0]).__name__,
    }


def build_cases():
    cases = []

    def add(case_id, func, *args, **kwargs):
        cases.append((case_id, lambda: run(func, *args, **kwargs)))

    # ---- transform_group
    groups = [
        ({"a": [1, 2]}, {"u": "v"}),
        ({"b": 1.0}, {}),
        ({}, {}),
        ({}, {"formula": "x"}),
        (
            {
                "list": [1.0, 2.0], "empty": [], "nested": [[1], [2]], "tuple": (1, 2), "none": None,
                "str": "abc", "dict": {"x": [1]}, "array": np.arange(3), "sub": MyList([1]),
                "int": 0, "nan": float("nan"), "bool": True, "range": range(2),
            },
            {"formula": "a + b", "u": ["x"]},
        ),
        ({"z": [1], "a": 2, "m": [3]}, None),
        ({"a": [1]}, 5),
        [{"a": [1]}, {"b": 2}],
        (collections.OrderedDict(b=[1], a=2), collections.OrderedDict(x=1)),
        ({1: [1], None: 2}, {}),
        ({"a": [1]},),
        ({"a": [1]}, {}, {}),
        (),
        ([("a", [1])], {}),
        ([1, 2], {}),
        (None, {}),
        ("ab", {}),
        {"a": [1], "b": {}},
        {"a": [1]},
        "ab",
        "abc",
        1,
        None,
        1.5,
    ]
    dims = ["dim", "mid_precision_coeffs", "high_precision_coeffs", ["x", "y"], (), None, 0, ""]
    for index, value in enumerate(groups):
        for dim in dims if index < 6 else dims[:2]:
            add(f"transform_group/{index}/{dim!r}", frd.transform_group, value, dim)
            add(f"transform_group/{index}/{dim!r}/keyword", frd.transform_group, value, dim=dim)
        add(f"transform_group/{index}/identities", identities, value)
    add("transform_group/missing-dim", frd.transform_group, ({"a": 1}, {}))
    add("transform_group/keywords", frd.transform_group, mapping=({"a": [1]}, {}), dim="d")

    # ---- transform_auxiliary_file
    for number in [-1, 0, 1, 2, 3, 4, 5, 6, 1.0, 2.5, True, False, None, "1", "", (1,), float("nan")]:
        add(
            f"transform_auxiliary_file/number[{number!r}]",
            frd.transform_auxiliary_file,
            {
                "preamble": {"record_length": 100},
                "record_sequence_number": number,
                "blanks": "",
                "raw_file_data": "ABC",
            },
        )
    auxiliary = {
        "unhashable-list": {"record_sequence_number": [1]},
        "unhashable-dict": {"record_sequence_number": {}},
        "missing-number": {"preamble": {}, "raw_file_data": "x"},
        "empty": {},
        "only-ignored": {"preamble": {}, "blanks": "", "spare1": 1, "blanks22": 2},
        "order": {"raw_file_data": "x", "record_sequence_number": 2, "a": 1, "preamble": 0, "b": 2},
        "collision": {"record_sequence_number": 3, "data_type": "kept?"},
        "collision-reversed": {"data_type": "kept?", "record_sequence_number": 3},
        "nested-spares": {
            "record_sequence_number": 4,
            "raw_file_data": {"spare": 1, "x": [{"blanks1": 2, "y": 3}], "preamble": {"z": 1}},
        },
        "near-misses": {"Preamble": 1, "preamble_": 2, "record_sequence_numbers": 1, "blank": 3},
        "ordered-dict": collections.OrderedDict(raw_file_data="x", record_sequence_number=1),
        "int-key": {1: 2},
        "list": [{"record_sequence_number": 1}],
        "tuple": ({"record_sequence_number": 1}, {}),
        "none": None,
        "string": "preamble",
        "int": 3,
    }
    for name, value in auxiliary.items():
        add(f"transform_auxiliary_file/{name}", frd.transform_auxiliary_file, value)

    # ---- transform_record5
    def coeffs(prefix, n=25):
        return {prefix: [float(i) for i in range(n)], f"{prefix}_origin": 1.5}

    full = {
        "preamble": {"record_length": 5000},
        "record_sequence_number": 1,
        "conversion_from_map_projection_to_pixel": (coeffs("a", 10), {"formula": "P = ..."}),
        "calibration_mode_data_location_flag": "no_calibration",
        "calibration_at_upper_image": {"start_line_number": 1, "end_line_number": 2},
        "calibration_at_bottom_image": {"start_line_number": -1, "end_line_number": -1},
        "prf_switching_flag": 1,
        "start_line_number_of_prf_switching": 100,
        "blanks1": "",
        "number_of_loss_lines": {"level1.0": 0, "others": 3},
        "blanks2": "",
        "system_reserve": "RESERVED",
        "conversion_from_pixel_to_geographic": (coeffs("c"), {"formula": "phi = ..."}),
        "conversion_from_geographic_to_pixel": (coeffs("d"), {"formula": "p = ..."}),
        "blanks": "",
    }

    def variant(**updates):
        new = copy.deepcopy(full)
        for key, value in updates.items():
            if value is KeyError:
                del new[key]
            else:
                new[key] = value
        return new

    record5 = {
        "full": full,
        "reversed": dict(reversed(list(full.items()))),
        "empty": {},
        "only-ignored": {"preamble": 1, "record_sequence_number": 2, "system_reserve": "x"},
        "prf-0": variant(prf_switching_flag=0),
        "prf-blank": variant(prf_switching_flag=-1),
        "prf-none": variant(prf_switching_flag=None),
        "prf-list": variant(prf_switching_flag=[]),
        "prf-array": variant(prf_switching_flag=np.array([1, 2])),
        "prf-missing": variant(prf_switching_flag=KeyError),
        "no-conversions": variant(
            conversion_from_map_projection_to_pixel=KeyError,
            conversion_from_pixel_to_geographic=KeyError,
            conversion_from_geographic_to_pixel=KeyError,
        ),
        "conversion-empty": variant(conversion_from_pixel_to_geographic=({}, {})),
        "conversion-no-attrs": variant(conversion_from_pixel_to_geographic=coeffs("c")),
        "conversion-int": variant(conversion_from_map_projection_to_pixel=5),
        "conversion-none": variant(conversion_from_geographic_to_pixel=None),
        "conversion-1-tuple": variant(conversion_from_geographic_to_pixel=({},)),
        "conversion-3-tuple": variant(conversion_from_map_projection_to_pixel=({}, {}, {})),
        "conversion-list-mapping": variant(conversion_from_pixel_to_geographic=([1], {})),
        "conversion-attrs-none": variant(conversion_from_pixel_to_geographic=({"c": [1.0]}, None)),
        "conversion-nested": variant(
            conversion_from_pixel_to_geographic=({"c": [[1.0], [2.0]], "sub": {"x": [1]}}, {})
        ),
        "conversion-spares": variant(
            conversion_from_pixel_to_geographic=({"c": [1.0], "spare1": [2.0], "blanks": ""}, {})
        ),
        "collision": variant(prf_switching="old", projected_to_image=({}, {"old": True})),
        "collision-first": {"prf_switching": "old", **full},
        "near-misses": variant(system_reserved="kept", Preamble=1, record_sequence_number_=2),
        "extra": variant(extra_attr="x", extra_var=(1, {}), extra_group={"a": 1}, extra_list=[1]),
        "ordered-dict": collections.OrderedDict(full),
        "list": [full],
        "tuple": (full, {}),
        "none": None,
        "string": "preamble",
        "int-key": {1: 2},
    }
    for name, value in record5.items():
        add(f"transform_record5/{name}", frd.transform_record5, value)

    # ---- bytes -> parser -> transformers
    for seed, kwargs in enumerate(
        [{}, {"blank_rate": 0.05}, {"blank_rate": 0.3}, {"blank_rate": 1.0}, {}, {}, {}]
    ):
        records = sample_records(100 + seed, **kwargs)
        add(
            f"records/{seed}/transform_auxiliary_file",
            frd.transform_auxiliary_file,
            records["facility_related_data_1"],
        )
        add(
            f"records/{seed}/transform_record5",
            frd.transform_record5,
            records["facility_related_data_5"],
        )
        for key in [
            "conversion_from_map_projection_to_pixel",
            "conversion_from_pixel_to_geographic",
            "conversion_from_geographic_to_pixel",
        ]:
            add(
                f"records/{seed}/transform_group/{key}",
                frd.transform_group,
                records["facility_related_data_5"][key],
                dim="coeffs",
            )
        leader = dict(records)
        leader["map_projection"] = [records["map_projection"]]
        for index in range(2, 5):
            leader[f"facility_related_data_{index}"] = records["facility_related_data_1"]
        add(f"records/{seed}/transform_metadata", metadata.transform_metadata, leader)
        add(
            f"records/{seed}/transform_metadata/record5-only",
            metadata.transform_metadata,
            {"facility_related_data_5": records["facility_related_data_5"]},
        )

    return cases


# --- BEGIN EXPECTED (recorded from the unchanged code) ---
EXPECTED = {"transform_group/0/'dim'": 'sha256[ok]:a048645d26d8e0faf638c9be0cf220e4f35c276fca0bd65d360543e06ae350fb:374',
 "transform_group/0/'dim'/keyword": 'sha256[ok]:80fd612b3d3f9fcd16b4ecce544388a3b6d79315def06e2b780d0c529ff919bf:392',
 "transform_group/0/'mid_precision_coeffs'": 'sha256[ok]:6ec4e4695cbd5d63f45e955ce182635af158b73fb5afd9e584a2601ff163b51e:408',
 "transform_group/0/'mid_precision_coeffs'/keyword": 'sha256[ok]:9bf19a66fe9c6001580e691aab211a8d3b4554debada79e552602c47dcab6413:426',
 "transform_group/0/'high_precision_coeffs'": 'sha256[ok]:04f603313d5d355a3b88eac304985467e52ff14c20d2e895e91a6d7e4e29b233:410',
 "transform_group/0/'high_precision_coeffs'/keyword": 'sha256[ok]:6a9dfab6eeef25cf2e77d1c70ebf61cc30f30ced0b42f66847572dbdb65b99de:428',
 "transform_group/0/['x', 'y']": 'sha256[ok]:16d136a49e0b72d2fc5dccc92e6a552d6109460abd6c459a01a54fbc18e8211e:426',
 "transform_group/0/['x', 'y']/keyword": 'sha256[ok]:5a2d3c9464a6ebf38c0395cf8466836dc009ee3b76952e5744184981e6f6d4b3:444',
 'transform_group/0/()': 'sha256[ok]:827f5167f6794371479b0bca9d4c00487440ad228e3fd3e8cdb3ec71b7d9cb42:368',
 'transform_group/0/()/keyword': 'sha256[ok]:3f212a5d7eb864e3f2f05f020de38df88be6f2f5047adf4b2b4cf811b118bc5c:386',
 'transform_group/0/None': 'sha256[ok]:a6e7d6ac5dec15ee25a4b5c53fa2324f1d002b54f0d56b3d7ac0f7389b717797:382',
 'transform_group/0/None/keyword': 'sha256[ok]:5668210c8883a0bd5fe12ac63e769a7c8d7335640f26330a04873b5f34657b46:400',
 'transform_group/0/0': 'sha256[ok]:3fba4b3bf23a1b41e502e295dff124d88584d2840a56d422ec663501f8e87fb1:366',
 'transform_group/0/0/keyword': 'sha256[ok]:68346df6d834a985acf6372d43536e137ce9e1469d5e104f958b170d43f6e82d:384',
 "transform_group/0/''": 'sha256[ok]:f5c0a244e3c79095ae8b7999c297dc3aa5d058eaf6fc50f9e93f9f97937d5fee:368',
 "transform_group/0/''/keyword": 'sha256[ok]:23bb175cd1758c3fc6b593facd4e701e7b2fb6e9c330c4eb92318569e1906044:386',
 'transform_group/0/identities': 'sha256[ok]:f98569a7f80749be1dc44f68d5de234c49cfbd6262c1acd3606423729cccb81c:393',
 "transform_group/1/'dim'": '((\'ok\', (\'tuple\', [(\'dict\', [((\'str\', "\'b\'"), (\'tuple\', '
                            "[('tuple', []), ('float', '1.0'), ('dict', [])]))]), ('dict', [])])), "
                            "('inputs-after', ('tuple', [('tuple', [('dict', [(('str', "
                            '"\'b\'"), (\'float\', \'1.0\'))]), (\'dict\', [])]), (\'str\', '
                            '"\'dim\'")]), (\'dict\', [])))',
 "transform_group/1/'dim'/keyword": '((\'ok\', (\'tuple\', [(\'dict\', [((\'str\', "\'b\'"), '
                                    "('tuple', [('tuple', []), ('float', '1.0'), ('dict', "
                                    "[])]))]), ('dict', [])])), ('inputs-after', ('tuple', "
                                    '[(\'tuple\', [(\'dict\', [((\'str\', "\'b\'"), (\'float\', '
                                    "'1.0'))]), ('dict', [])])]), ('dict', [(('str', "
                                    '"\'dim\'"), (\'str\', "\'dim\'"))])))',
 "transform_group/1/'mid_precision_coeffs'": "(('ok', ('tuple', [('dict', [(('str', "
                                             '"\'b\'"), (\'tuple\', [(\'tuple\', []), (\'float\', '
                                             "'1.0'), ('dict', [])]))]), ('dict', [])])), "
                                             "('inputs-after', ('tuple', [('tuple', [('dict', "
                                             '[((\'str\', "\'b\'"), (\'float\', \'1.0\'))]), '
                                             "('dict', [])]), ('str', "
                                             '"\'mid_precision_coeffs\'")]), (\'dict\', [])))',
 "transform_group/1/'mid_precision_coeffs'/keyword": "(('ok', ('tuple', [('dict', [(('str', "
                                                     '"\'b\'"), (\'tuple\', [(\'tuple\', []), '
                                                     "('float', '1.0'), ('dict', [])]))]), "
                                                     "('dict', [])])), ('inputs-after', ('tuple', "
                                                     "[('tuple', [('dict', [(('str', "
                                                     '"\'b\'"), (\'float\', \'1.0\'))]), '
                                                     "('dict', [])])]), ('dict', [(('str', "
                                                     '"\'dim\'"), (\'str\', '
                                                     '"\'mid_precision_coeffs\'"))])))',
 "transform_group/1/'high_precision_coeffs'": "(('ok', ('tuple', [('dict', [(('str', "
                                              '"\'b\'"), (\'tuple\', [(\'tuple\', []), (\'float\', '
                                              "'1.0'), ('dict', [])]))]), ('dict', [])])), "
                                              "('inputs-after', ('tuple', [('tuple', [('dict', "
                                              '[((\'str\', "\'b\'"), (\'float\', \'1.0\'))]), '
                                              "('dict', [])]), ('str', "
                                              '"\'high_precision_coeffs\'")]), (\'dict\', [])))',
 "transform_group/1/'high_precision_coeffs'/keyword": "(('ok', ('tuple', [('dict', [(('str', "
                                                      '"\'b\'"), (\'tuple\', [(\'tuple\', []), '
                                                      "('float', '1.0'), ('dict', [])]))]), "
                                                      "('dict', [])])), ('inputs-after', ('tuple', "
                                                      "[('tuple', [('dict', [(('str', "
                                                      '"\'b\'"), (\'float\', \'1.0\'))]), '
                                                      "('dict', [])])]), ('dict', [(('str', "
                                                      '"\'dim\'"), (\'str\', '
                                                      '"\'high_precision_coeffs\'"))])))',
 "transform_group/1/['x', 'y']": '((\'ok\', (\'tuple\', [(\'dict\', [((\'str\', "\'b\'"), '
                                 "('tuple', [('tuple', []), ('float', '1.0'), ('dict', [])]))]), "
                                 "('dict', [])])), ('inputs-after', ('tuple', [('tuple', [('dict', "
                                 '[((\'str\', "\'b\'"), (\'float\', \'1.0\'))]), (\'dict\', [])]), '
                                 '(\'list\', [(\'str\', "\'x\'"), (\'str\', "\'y\'")])]), '
                                 "('dict', [])))",
 "transform_group/1/['x', 'y']/keyword": 'sha256[ok]:bd7d6290a8ab728439b6dbcad760497f28d7ee1350b0ae3beb7a43785bdcd956:307',
 'transform_group/1/()': '((\'ok\', (\'tuple\', [(\'dict\', [((\'str\', "\'b\'"), (\'tuple\', '
                         "[('tuple', []), ('float', '1.0'), ('dict', [])]))]), ('dict', [])])), "
                         "('inputs-after', ('tuple', [('tuple', [('dict', [(('str', "
                         '"\'b\'"), (\'float\', \'1.0\'))]), (\'dict\', [])]), (\'tuple\', [])]), '
                         "('dict', [])))",
 'transform_group/1/()/keyword': '((\'ok\', (\'tuple\', [(\'dict\', [((\'str\', "\'b\'"), '
                                 "('tuple', [('tuple', []), ('float', '1.0'), ('dict', [])]))]), "
                                 "('dict', [])])), ('inputs-after', ('tuple', [('tuple', [('dict', "
                                 '[((\'str\', "\'b\'"), (\'float\', \'1.0\'))]), (\'dict\', '
                                 '[])])]), (\'dict\', [((\'str\', "\'dim\'"), (\'tuple\', []))])))',
 'transform_group/1/None': '((\'ok\', (\'tuple\', [(\'dict\', [((\'str\', "\'b\'"), (\'tuple\', '
                           "[('tuple', []), ('float', '1.0'), ('dict', [])]))]), ('dict', [])])), "
                           "('inputs-after', ('tuple', [('tuple', [('dict', [(('str', "
                           '"\'b\'"), (\'float\', \'1.0\'))]), (\'dict\', [])]), (\'NoneType\', '
                           "'None')]), ('dict', [])))",
 'transform_group/1/None/keyword': '((\'ok\', (\'tuple\', [(\'dict\', [((\'str\', "\'b\'"), '
                                   "('tuple', [('tuple', []), ('float', '1.0'), ('dict', [])]))]), "
                                   "('dict', [])])), ('inputs-after', ('tuple', [('tuple', "
                                   '[(\'dict\', [((\'str\', "\'b\'"), (\'float\', \'1.0\'))]), '
                                   '(\'dict\', [])])]), (\'dict\', [((\'str\', "\'dim\'"), '
                                   "('NoneType', 'None'))])))",
 'transform_group/1/0': '((\'ok\', (\'tuple\', [(\'dict\', [((\'str\', "\'b\'"), (\'tuple\', '
                        "[('tuple', []), ('float', '1.0'), ('dict', [])]))]), ('dict', [])])), "
                        "('inputs-after', ('tuple', [('tuple', [('dict', [(('str', "
                        '"\'b\'"), (\'float\', \'1.0\'))]), (\'dict\', [])]), (\'int\', \'0\')]), '
                        "('dict', [])))",
 'transform_group/1/0/keyword': '((\'ok\', (\'tuple\', [(\'dict\', [((\'str\', "\'b\'"), '
                                "('tuple', [('tuple', []), ('float', '1.0'), ('dict', [])]))]), "
                                "('dict', [])])), ('inputs-after', ('tuple', [('tuple', [('dict', "
                                '[((\'str\', "\'b\'"), (\'float\', \'1.0\'))]), (\'dict\', '
                                '[])])]), (\'dict\', [((\'str\', "\'dim\'"), (\'int\', \'0\'))])))',
 "transform_group/1/''": '((\'ok\', (\'tuple\', [(\'dict\', [((\'str\', "\'b\'"), (\'tuple\', '
                         "[('tuple', []), ('float', '1.0'), ('dict', [])]))]), ('dict', [])])), "
                         "('inputs-after', ('tuple', [('tuple', [('dict', [(('str', "
                         '"\'b\'"), (\'float\', \'1.0\'))]), (\'dict\', [])]), (\'str\', '
                         '"\'\'")]), (\'dict\', [])))',
 "transform_group/1/''/keyword": '((\'ok\', (\'tuple\', [(\'dict\', [((\'str\', "\'b\'"), '
                                 "('tuple', [('tuple', []), ('float', '1.0'), ('dict', [])]))]), "
                                 "('dict', [])])), ('inputs-after', ('tuple', [('tuple', [('dict', "
                                 '[((\'str\', "\'b\'"), (\'float\', \'1.0\'))]), (\'dict\', '
                                 '[])])]), (\'dict\', [((\'str\', "\'dim\'"), (\'str\', '
                                 '"\'\'"))])))',
 'transform_group/1/identities': 'sha256[ok]:2eb55b528d72bc3e79c9762a9e04dc6aa9ea72205f405dcda11e4012ae25c2a9:339',
 "transform_group/2/'dim'": "(('ok', ('tuple', [('dict', []), ('dict', [])])), ('inputs-after', "
                            "('tuple', [('tuple', [('dict', []), ('dict', [])]), ('str', "
                            '"\'dim\'")]), (\'dict\', [])))',
 "transform_group/2/'dim'/keyword": "(('ok', ('tuple', [('dict', []), ('dict', [])])), "
                                    "('inputs-after', ('tuple', [('tuple', [('dict', []), ('dict', "
                                    '[])])]), (\'dict\', [((\'str\', "\'dim\'"), (\'str\', '
                                    '"\'dim\'"))])))',
 "transform_group/2/'mid_precision_coeffs'": "(('ok', ('tuple', [('dict', []), ('dict', [])])), "
                                             "('inputs-after', ('tuple', [('tuple', [('dict', []), "
                                             "('dict', [])]), ('str', "
                                             '"\'mid_precision_coeffs\'")]), (\'dict\', [])))',
 "transform_group/2/'mid_precision_coeffs'/keyword": "(('ok', ('tuple', [('dict', []), ('dict', "
                                                     "[])])), ('inputs-after', ('tuple', "
                                                     "[('tuple', [('dict', []), ('dict', [])])]), "
                                                     '(\'dict\', [((\'str\', "\'dim\'"), (\'str\', '
                                                     '"\'mid_precision_coeffs\'"))])))',
 "transform_group/2/'high_precision_coeffs'": "(('ok', ('tuple', [('dict', []), ('dict', [])])), "
                                              "('inputs-after', ('tuple', [('tuple', [('dict', "
                                              "[]), ('dict', [])]), ('str', "
                                              '"\'high_precision_coeffs\'")]), (\'dict\', [])))',
 "transform_group/2/'high_precision_coeffs'/keyword": "(('ok', ('tuple', [('dict', []), ('dict', "
                                                      "[])])), ('inputs-after', ('tuple', "
                                                      "[('tuple', [('dict', []), ('dict', [])])]), "
                                                      '(\'dict\', [((\'str\', "\'dim\'"), '
                                                      '(\'str\', "\'high_precision_coeffs\'"))])))',
 "transform_group/2/['x', 'y']": "(('ok', ('tuple', [('dict', []), ('dict', [])])), "
                                 "('inputs-after', ('tuple', [('tuple', [('dict', []), ('dict', "
                                 '[])]), (\'list\', [(\'str\', "\'x\'"), (\'str\', "\'y\'")])]), '
                                 "('dict', [])))",
 "transform_group/2/['x', 'y']/keyword": "(('ok', ('tuple', [('dict', []), ('dict', [])])), "
                                         "('inputs-after', ('tuple', [('tuple', [('dict', []), "
                                         '(\'dict\', [])])]), (\'dict\', [((\'str\', "\'dim\'"), '
                                         '(\'list\', [(\'str\', "\'x\'"), (\'str\', '
                                         '"\'y\'")]))])))',
 'transform_group/2/()': "(('ok', ('tuple', [('dict', []), ('dict', [])])), ('inputs-after', "
                         "('tuple', [('tuple', [('dict', []), ('dict', [])]), ('tuple', [])]), "
                         "('dict', [])))",
 'transform_group/2/()/keyword': "(('ok', ('tuple', [('dict', []), ('dict', [])])), "
                                 "('inputs-after', ('tuple', [('tuple', [('dict', []), ('dict', "
                                 '[])])]), (\'dict\', [((\'str\', "\'dim\'"), (\'tuple\', []))])))',
 'transform_group/2/None': "(('ok', ('tuple', [('dict', []), ('dict', [])])), ('inputs-after', "
                           "('tuple', [('tuple', [('dict', []), ('dict', [])]), ('NoneType', "
                           "'None')]), ('dict', [])))",
 'transform_group/2/None/keyword': "(('ok', ('tuple', [('dict', []), ('dict', [])])), "
                                   "('inputs-after', ('tuple', [('tuple', [('dict', []), ('dict', "
                                   '[])])]), (\'dict\', [((\'str\', "\'dim\'"), (\'NoneType\', '
                                   "'None'))])))",
 'transform_group/2/0': "(('ok', ('tuple', [('dict', []), ('dict', [])])), ('inputs-after', "
                        "('tuple', [('tuple', [('dict', []), ('dict', [])]), ('int', '0')]), "
                        "('dict', [])))",
 'transform_group/2/0/keyword': "(('ok', ('tuple', [('dict', []), ('dict', [])])), "
                                "('inputs-after', ('tuple', [('tuple', [('dict', []), ('dict', "
                                '[])])]), (\'dict\', [((\'str\', "\'dim\'"), (\'int\', \'0\'))])))',
 "transform_group/2/''": "(('ok', ('tuple', [('dict', []), ('dict', [])])), ('inputs-after', "
                         "('tuple', [('tuple', [('dict', []), ('dict', [])]), ('str', "
                         '"\'\'")]), (\'dict\', [])))',
 "transform_group/2/''/keyword": "(('ok', ('tuple', [('dict', []), ('dict', [])])), "
                                 "('inputs-after', ('tuple', [('tuple', [('dict', []), ('dict', "
                                 '[])])]), (\'dict\', [((\'str\', "\'dim\'"), (\'str\', '
                                 '"\'\'"))])))',
 'transform_group/2/identities': '((\'ok\', (\'dict\', [((\'str\', "\'attrs-distinct\'"), '
                                 '(\'bool\', \'True\')), ((\'str\', "\'types\'"), (\'list\', [])), '
                                 '((\'str\', "\'result-type\'"), (\'str\', "\'tuple\'")), '
                                 '((\'str\', "\'mapping-type\'"), (\'str\', "\'dict\'"))])), '
                                 "('inputs-after', ('tuple', [('tuple', [('dict', []), ('dict', "
                                 "[])])]), ('dict', [])))",
 "transform_group/3/'dim'": "(('ok', ('tuple', [('dict', []), ('dict', [(('str', "
                            '"\'formula\'"), (\'str\', "\'x\'"))])])), (\'inputs-after\', '
                            "('tuple', [('tuple', [('dict', []), ('dict', [(('str', "
                            '"\'formula\'"), (\'str\', "\'x\'"))])]), (\'str\', "\'dim\'")]), '
                            "('dict', [])))",
 "transform_group/3/'dim'/keyword": "(('ok', ('tuple', [('dict', []), ('dict', [(('str', "
                                    '"\'formula\'"), (\'str\', "\'x\'"))])])), (\'inputs-after\', '
                                    "('tuple', [('tuple', [('dict', []), ('dict', [(('str', "
                                    '"\'formula\'"), (\'str\', "\'x\'"))])])]), (\'dict\', '
                                    '[((\'str\', "\'dim\'"), (\'str\', "\'dim\'"))])))',
 "transform_group/3/'mid_precision_coeffs'": "(('ok', ('tuple', [('dict', []), ('dict', [(('str', "
                                             '"\'formula\'"), (\'str\', "\'x\'"))])])), '
                                             "('inputs-after', ('tuple', [('tuple', [('dict', []), "
                                             '(\'dict\', [((\'str\', "\'formula\'"), (\'str\', '
                                             '"\'x\'"))])]), (\'str\', '
                                             '"\'mid_precision_coeffs\'")]), (\'dict\', [])))',
 "transform_group/3/'mid_precision_coeffs'/keyword": "(('ok', ('tuple', [('dict', []), ('dict', "
                                                     '[((\'str\', "\'formula\'"), (\'str\', '
                                                     '"\'x\'"))])])), (\'inputs-after\', '
                                                     "('tuple', [('tuple', [('dict', []), ('dict', "
                                                     '[((\'str\', "\'formula\'"), (\'str\', '
                                                     '"\'x\'"))])])]), (\'dict\', [((\'str\', '
                                                     '"\'dim\'"), (\'str\', '
                                                     '"\'mid_precision_coeffs\'"))])))',
 "transform_group/3/'high_precision_coeffs'": "(('ok', ('tuple', [('dict', []), ('dict', [(('str', "
                                              '"\'formula\'"), (\'str\', "\'x\'"))])])), '
                                              "('inputs-after', ('tuple', [('tuple', [('dict', "
                                              '[]), (\'dict\', [((\'str\', "\'formula\'"), '
                                              '(\'str\', "\'x\'"))])]), (\'str\', '
                                              '"\'high_precision_coeffs\'")]), (\'dict\', [])))',
 "transform_group/3/'high_precision_coeffs'/keyword": "(('ok', ('tuple', [('dict', []), ('dict', "
                                                      '[((\'str\', "\'formula\'"), (\'str\', '
                                                      '"\'x\'"))])])), (\'inputs-after\', '
                                                      "('tuple', [('tuple', [('dict', []), "
                                                      '(\'dict\', [((\'str\', "\'formula\'"), '
                                                      '(\'str\', "\'x\'"))])])]), (\'dict\', '
                                                      '[((\'str\', "\'dim\'"), (\'str\', '
                                                      '"\'high_precision_coeffs\'"))])))',
 "transform_group/3/['x', 'y']": "(('ok', ('tuple', [('dict', []), ('dict', [(('str', "
                                 '"\'formula\'"), (\'str\', "\'x\'"))])])), (\'inputs-after\', '
                                 "('tuple', [('tuple', [('dict', []), ('dict', [(('str', "
                                 '"\'formula\'"), (\'str\', "\'x\'"))])]), (\'list\', [(\'str\', '
                                 '"\'x\'"), (\'str\', "\'y\'")])]), (\'dict\', [])))',
 "transform_group/3/['x', 'y']/keyword": "(('ok', ('tuple', [('dict', []), ('dict', [(('str', "
                                         '"\'formula\'"), (\'str\', "\'x\'"))])])), '
                                         "('inputs-after', ('tuple', [('tuple', [('dict', []), "
                                         '(\'dict\', [((\'str\', "\'formula\'"), (\'str\', '
                                         '"\'x\'"))])])]), (\'dict\', [((\'str\', "\'dim\'"), '
                                         '(\'list\', [(\'str\', "\'x\'"), (\'str\', '
                                         '"\'y\'")]))])))',
 'transform_group/3/()': "(('ok', ('tuple', [('dict', []), ('dict', [(('str', "
                         '"\'formula\'"), (\'str\', "\'x\'"))])])), (\'inputs-after\', (\'tuple\', '
                         '[(\'tuple\', [(\'dict\', []), (\'dict\', [((\'str\', "\'formula\'"), '
                         '(\'str\', "\'x\'"))])]), (\'tuple\', [])]), (\'dict\', [])))',
 'transform_group/3/()/keyword': "(('ok', ('tuple', [('dict', []), ('dict', [(('str', "
                                 '"\'formula\'"), (\'str\', "\'x\'"))])])), (\'inputs-after\', '
                                 "('tuple', [('tuple', [('dict', []), ('dict', [(('str', "
                                 '"\'formula\'"), (\'str\', "\'x\'"))])])]), (\'dict\', '
                                 '[((\'str\', "\'dim\'"), (\'tuple\', []))])))',
 'transform_group/3/None': "(('ok', ('tuple', [('dict', []), ('dict', [(('str', "
                           '"\'formula\'"), (\'str\', "\'x\'"))])])), (\'inputs-after\', '
                           "('tuple', [('tuple', [('dict', []), ('dict', [(('str', "
                           '"\'formula\'"), (\'str\', "\'x\'"))])]), (\'NoneType\', \'None\')]), '
                           "('dict', [])))",
 'transform_group/3/None/keyword': "(('ok', ('tuple', [('dict', []), ('dict', [(('str', "
                                   '"\'formula\'"), (\'str\', "\'x\'"))])])), (\'inputs-after\', '
                                   "('tuple', [('tuple', [('dict', []), ('dict', [(('str', "
                                   '"\'formula\'"), (\'str\', "\'x\'"))])])]), (\'dict\', '
                                   '[((\'str\', "\'dim\'"), (\'NoneType\', \'None\'))])))',
 'transform_group/3/0': "(('ok', ('tuple', [('dict', []), ('dict', [(('str', "
                        '"\'formula\'"), (\'str\', "\'x\'"))])])), (\'inputs-after\', (\'tuple\', '
                        '[(\'tuple\', [(\'dict\', []), (\'dict\', [((\'str\', "\'formula\'"), '
                        '(\'str\', "\'x\'"))])]), (\'int\', \'0\')]), (\'dict\', [])))',
 'transform_group/3/0/keyword': "(('ok', ('tuple', [('dict', []), ('dict', [(('str', "
                                '"\'formula\'"), (\'str\', "\'x\'"))])])), (\'inputs-after\', '
                                "('tuple', [('tuple', [('dict', []), ('dict', [(('str', "
                                '"\'formula\'"), (\'str\', "\'x\'"))])])]), (\'dict\', [((\'str\', '
                                '"\'dim\'"), (\'int\', \'0\'))])))',
 "transform_group/3/''": "(('ok', ('tuple', [('dict', []), ('dict', [(('str', "
                         '"\'formula\'"), (\'str\', "\'x\'"))])])), (\'inputs-after\', (\'tuple\', '
                         '[(\'tuple\', [(\'dict\', []), (\'dict\', [((\'str\', "\'formula\'"), '
                         '(\'str\', "\'x\'"))])]), (\'str\', "\'\'")]), (\'dict\', [])))',
 "transform_group/3/''/keyword": "(('ok', ('tuple', [('dict', []), ('dict', [(('str', "
                                 '"\'formula\'"), (\'str\', "\'x\'"))])])), (\'inputs-after\', '
                                 "('tuple', [('tuple', [('dict', []), ('dict', [(('str', "
                                 '"\'formula\'"), (\'str\', "\'x\'"))])])]), (\'dict\', '
                                 '[((\'str\', "\'dim\'"), (\'str\', "\'\'"))])))',
 'transform_group/3/identities': 'sha256[ok]:1d7b65f8e2a04961e6ae67fa876f65856cd676b7775c1912519ea91fe753e11a:325',
 "transform_group/4/'dim'": 'sha256[ok]:5b815bd6872ec824f44537535831b84da727854a31d328d78903c0aa07c25c6e:2373',
 "transform_group/4/'dim'/keyword": 'sha256[ok]:0c51cc810f1eb0a0ed1f668e98fc8548b901e44af82dce3a634b3f1914c8a409:2391',
 "transform_group/4/'mid_precision_coeffs'": 'sha256[ok]:7e6a580a5771d1f1e8e1adf522ba99b4fda213e93b67ec770318122d549b50a5:2458',
 "transform_group/4/'mid_precision_coeffs'/keyword": 'sha256[ok]:6fe889c5142c397727a199dd9f99a3d99fae78906e0f0c474e6c3fd67e4cdf5b:2476',
 "transform_group/4/'high_precision_coeffs'": 'sha256[ok]:d6e7dadcbeec1002f7b18d1026a582f254be44bd74467cd0a8a90486bcc8abc7:2463',
 "transform_group/4/'high_precision_coeffs'/keyword": 'sha256[ok]:5da22f41114e2805e6148afdd42aa589c12d9be2d47cd87a233fd844232bc66f:2481',
 "transform_group/4/['x', 'y']": 'sha256[ok]:a26555864b2318396a7ba48a328be047ac39ae0d21197839587d333b007c173f:2503',
 "transform_group/4/['x', 'y']/keyword": 'sha256[ok]:dfa1d9209702086a6a40d774c6d7839759ee066a60a9d7ce64c24b494bfe8b17:2521',
 'transform_group/4/()': 'sha256[ok]:355397c426d7771851ee4b9ab561ba9c97ea742f6110404f0113454fd8f20b5d:2358',
 'transform_group/4/()/keyword': 'sha256[ok]:2d46494d9043ec3af4d3e72e7cd4d6407488e385ea8bbd79cc7814421752daca:2376',
 'transform_group/4/None': 'sha256[ok]:e4c73d9640fb49bb70a9593d9b670341eaa4f6a3f3598d3643f43460f3b86475:2393',
 'transform_group/4/None/keyword': 'sha256[ok]:e9cb8393fa0ba0bfaf4fb573c71945749477b07f46b75180cba0b89c1fcc2ff5:2411',
 'transform_group/4/0': 'sha256[ok]:e117184091c8b17e7b2073fb2068107245c2c1f1192c842684315f0a0465067f:2353',
 'transform_group/4/0/keyword': 'sha256[ok]:23422833f338c4ee00eed6cffca3a15ab91e9fc23eeb1c5625527a7dd3ddebe7:2371',
 "transform_group/4/''": 'sha256[ok]:6b8279069b4226c79ce8cbf7c3b89ae0119b5ddd1e9caa6b6acbce092f3835cc:2358',
 "transform_group/4/''/keyword": 'sha256[ok]:02c758b68e8fbe605a0e2a2b12893aa93010f0688e9fb75d3ff1a7aead3efb6e:2376',
 'transform_group/4/identities': 'sha256[ok]:57645f997795a3ae78b545c718958c2feb5a04a7be6ce25c6d0064e2a7ba088f:1376',
 "transform_group/5/'dim'": 'sha256[ok]:3c1c154a91a9c32a5adbaec7a8666cb17d16727bce31d5113d8c50a4dbbd3eee:537',
 "transform_group/5/'dim'/keyword": 'sha256[ok]:36b01199b8487039fda94d298b1c9e6e2f62aea023bbd7256d661137a2e737c4:555',
 "transform_group/5/'mid_precision_coeffs'": 'sha256[ok]:df8af0d4495c2c3588a4f635ec78ca9c9689a6d7df146890cd029cf257d41010:588',
 "transform_group/5/'mid_precision_coeffs'/keyword": 'sha256[ok]:af1d4f2e613edb5b55b7a225398d41f7281f990fd448e18d0d3cbfc95335710b:606',
 "transform_group/5/'high_precision_coeffs'": 'sha256[ok]:6d23ee828a522e577a4f726e5a3d3e98f08bec8c893c458a83691fe23bab290a:591',
 "transform_group/5/'high_precision_coeffs'/keyword": 'sha256[ok]:73544e198af4af2562d6ca76d0568e43fdf8123440bcc3c4b62cb5a45fe95790:609',
 "transform_group/5/['x', 'y']": 'sha256[ok]:74fe7c84e98c6c3ce31b9669633657e1aea83761b6ac621db21157115ce57656:615',
 "transform_group/5/['x', 'y']/keyword": 'sha256[ok]:d7a71aaf4643ccabd1319cc42f4905abb34ac7e33920a7dc0b5f2bcf1123af53:633',
 'transform_group/5/()': 'sha256[ok]:f02813820913caa0f16fc29710099a8d6e09f4427e2b0b4e8a566a72f1dd1f32:528',
 'transform_group/5/()/keyword': 'sha256[ok]:43a3ca8a3f7b5f5a45e00bdb20e49ebd3c456a8884ae5d4df6ecb24efb368ee4:546',
 'transform_group/5/None': 'sha256[ok]:5634f181f8d0f14e1086e4162e080caf6884b5ba0257ca51cdf03a73cca8450e:549',
 'transform_group/5/None/keyword': 'sha256[ok]:a9f5ad2ca5104be927a8e3c0d4f4841c83c6b2af6af48af614871a7c8c9064ca:567',
 'transform_group/5/0': 'sha256[ok]:e616df4ee1b7b0fa2273ffa13af30f55c41cf07258480378c8479fed171ce6b3:525',
 'transform_group/5/0/keyword': 'sha256[ok]:00adee7095d2cf12863ba86418b2e93bd9342a3d542f7ad7e0fdc39f9add1aff:543',
 "transform_group/5/''": 'sha256[ok]:9a594f5c3f2fd26174ef4d59f3e2ad622409a53547c3186bd054e9be3d2a1f7d:528',
 "transform_group/5/''/keyword": 'sha256[ok]:61d8f0eb22352524fcb6bc32ba9c4d03c9662c833cd81f591467e1a22e7e4917:546',
 'transform_group/5/identities': 'sha256[ok]:6ca1bf3adb81a4f5bdb93daa8016cb12c7d70ba1ca9273bcfd42076c601ebfed:471',
 "transform_group/6/'dim'": '((\'ok\', (\'tuple\', [(\'dict\', [((\'str\', "\'a\'"), (\'tuple\', '
                            '[(\'str\', "\'dim\'"), (\'list\', [(\'int\', \'1\')]), (\'dict\', '
                            "[])]))]), ('int', '5')])), ('inputs-after', ('tuple', [('tuple', "
                            '[(\'dict\', [((\'str\', "\'a\'"), (\'list\', [(\'int\', \'1\')]))]), '
                            '(\'int\', \'5\')]), (\'str\', "\'dim\'")]), (\'dict\', [])))',
 "transform_group/6/'dim'/keyword": '((\'ok\', (\'tuple\', [(\'dict\', [((\'str\', "\'a\'"), '
                                    '(\'tuple\', [(\'str\', "\'dim\'"), (\'list\', [(\'int\', '
                                    "'1')]), ('dict', [])]))]), ('int', '5')])), ('inputs-after', "
                                    '(\'tuple\', [(\'tuple\', [(\'dict\', [((\'str\', "\'a\'"), '
                                    "('list', [('int', '1')]))]), ('int', '5')])]), ('dict', "
                                    '[((\'str\', "\'dim\'"), (\'str\', "\'dim\'"))])))',
 "transform_group/6/'mid_precision_coeffs'": 'sha256[ok]:18055223ec722e9346fe0b2ba4a9f7161ff5d8e59b5d25679f4c45bbb48dacd7:316',
 "transform_group/6/'mid_precision_coeffs'/keyword": 'sha256[ok]:bc5123312847b7f650a09179bce1f941a9ef75e44b66ff78ee74989006865902:334',
 'transform_group/6/identities': 'sha256[ok]:8545bd116c4eab921012eea3867d5d7ab2f1258b6e7bbaa3ce7d4ff955972b2d:347',
 "transform_group/7/'dim'": 'sha256[ok]:5c7e1c399ce0594b725a2a0e5a903e427011ebf32ca634959fcdf856b7af06cf:341',
 "transform_group/7/'dim'/keyword": 'sha256[ok]:de6edb9457e807e982c5810cc04ecd3f9cfdc69880b2cb00cd65b78497e5c3d1:359',
 "transform_group/7/'mid_precision_coeffs'": 'sha256[ok]:58522aae7a69ffd07420df83b9b738ff37469812efd9e4fe0549fa4a806927ae:375',
 "transform_group/7/'mid_precision_coeffs'/keyword": 'sha256[ok]:a09315d6b5cb2fc948deb05256138d779e117b1ef7d2f1617e2706575d204d4d:393',
 'transform_group/7/identities': 'sha256[ok]:a8fe2c3c2275252e505ea218de1f4a46e328af1b4f4f0197e71ff061bad9d179:376',
 "transform_group/8/'dim'": 'sha256[ok]:29ba072942073d61d1be298704ec0d5f258662bf2d7ced312021dcc15c7f9a84:469',
 "transform_group/8/'dim'/keyword": 'sha256[ok]:299c88d9f1618d4461ada0dbcc9ede983c57f9085d22822b0f1cefce0bc45d15:487',
 "transform_group/8/'mid_precision_coeffs'": 'sha256[ok]:1cba635a8190131970c21988752f7b61ac3c229ea770bedf3cf1ae5fb6837f10:503',
 "transform_group/8/'mid_precision_coeffs'/keyword": 'sha256[ok]:c0203b5f219b14dd18a3f417676259b5414d0e7ec63ca805de35ed3e1554277e:521',
 'transform_group/8/identities': 'sha256[ok]:729011c13b7e050d5cf3c3152ea8dacf8cad1dbc4281e91b77691c6ea81c9d02:443',
 "transform_group/9/'dim'": 'sha256[ok]:009d7968f6032fa9299093658bea9ceb4f5446bf1c15be81853097160d545671:396',
 "transform_group/9/'dim'/keyword": 'sha256[ok]:5815619f538a83386d0dcebcb31209e4c045560cc6a5c0ece39a0f0da00528f5:414',
 "transform_group/9/'mid_precision_coeffs'": 'sha256[ok]:a00d714aa8c8ed0b5705e0e0b7de043016b3658c342026916ee499a35b5c5c7e:430',
 "transform_group/9/'mid_precision_coeffs'/keyword": 'sha256[ok]:8de6b6ce0cf28a5f2c40510f55b25416cea18279c1a57d85558e815e5f55b003:448',
 'transform_group/9/identities': 'sha256[ok]:3e4e1432914be6a452116b36c0b91e7304643522aeb9e54538e5ceeff341a015:403',
 "transform_group/10/'dim'": "(('raises', 'ValueError', 'not enough values to unpack (expected 2, "
                             "got 1)'), ('inputs-after', ('tuple', [('tuple', [('dict', [(('str', "
                             '"\'a\'"), (\'list\', [(\'int\', \'1\')]))])]), (\'str\', '
                             '"\'dim\'")]), (\'dict\', [])))',
 "transform_group/10/'dim'/keyword": "(('raises', 'ValueError', 'not enough values to unpack "
                                     "(expected 2, got 1)'), ('inputs-after', ('tuple', [('tuple', "
                                     '[(\'dict\', [((\'str\', "\'a\'"), (\'list\', [(\'int\', '
                                     '\'1\')]))])])]), (\'dict\', [((\'str\', "\'dim\'"), '
                                     '(\'str\', "\'dim\'"))])))',
 "transform_group/10/'mid_precision_coeffs'": "(('raises', 'ValueError', 'not enough values to "
                                              "unpack (expected 2, got 1)'), ('inputs-after', "
                                              "('tuple', [('tuple', [('dict', [(('str', "
                                              '"\'a\'"), (\'list\', [(\'int\', \'1\')]))])]), '
                                              '(\'str\', "\'mid_precision_coeffs\'")]), (\'dict\', '
                                              '[])))',
 "transform_group/10/'mid_precision_coeffs'/keyword": "(('raises', 'ValueError', 'not enough "
                                                      "values to unpack (expected 2, got 1)'), "
                                                      "('inputs-after', ('tuple', [('tuple', "
                                                      '[(\'dict\', [((\'str\', "\'a\'"), '
                                                      "('list', [('int', '1')]))])])]), ('dict', "
                                                      '[((\'str\', "\'dim\'"), (\'str\', '
                                                      '"\'mid_precision_coeffs\'"))])))',
 'transform_group/10/identities': "(('raises', 'ValueError', 'not enough values to unpack "
                                  "(expected 2, got 1)'), ('inputs-after', ('tuple', [('tuple', "
                                  '[(\'dict\', [((\'str\', "\'a\'"), (\'list\', [(\'int\', '
                                  "'1')]))])])]), ('dict', [])))",
 "transform_group/11/'dim'": "(('raises', 'ValueError', 'too many values to unpack (expected 2)'), "
                             "('inputs-after', ('tuple', [('tuple', [('dict', [(('str', "
                             '"\'a\'"), (\'list\', [(\'int\', \'1\')]))]), (\'dict\', []), '
                             '(\'dict\', [])]), (\'str\', "\'dim\'")]), (\'dict\', [])))',
 "transform_group/11/'dim'/keyword": "(('raises', 'ValueError', 'too many values to unpack "
                                     "(expected 2)'), ('inputs-after', ('tuple', [('tuple', "
                                     '[(\'dict\', [((\'str\', "\'a\'"), (\'list\', [(\'int\', '
                                     "'1')]))]), ('dict', []), ('dict', [])])]), ('dict', "
                                     '[((\'str\', "\'dim\'"), (\'str\', "\'dim\'"))])))',
 "transform_group/11/'mid_precision_coeffs'": "(('raises', 'ValueError', 'too many values to "
                                              "unpack (expected 2)'), ('inputs-after', ('tuple', "
                                              '[(\'tuple\', [(\'dict\', [((\'str\', "\'a\'"), '
                                              "('list', [('int', '1')]))]), ('dict', []), ('dict', "
                                              '[])]), (\'str\', "\'mid_precision_coeffs\'")]), '
                                              "('dict', [])))",
 "transform_group/11/'mid_precision_coeffs'/keyword": "(('raises', 'ValueError', 'too many values "
                                                      "to unpack (expected 2)'), ('inputs-after', "
                                                      "('tuple', [('tuple', [('dict', [(('str', "
                                                      '"\'a\'"), (\'list\', [(\'int\', '
                                                      "'1')]))]), ('dict', []), ('dict', [])])]), "
                                                      '(\'dict\', [((\'str\', "\'dim\'"), '
                                                      '(\'str\', "\'mid_precision_coeffs\'"))])))',
 'transform_group/11/identities': "(('raises', 'ValueError', 'too many values to unpack (expected "
                                  "2)'), ('inputs-after', ('tuple', [('tuple', [('dict', [(('str', "
                                  '"\'a\'"), (\'list\', [(\'int\', \'1\')]))]), (\'dict\', []), '
                                  "('dict', [])])]), ('dict', [])))",
 "transform_group/12/'dim'": "(('raises', 'ValueError', 'not enough values to unpack (expected 2, "
                             "got 0)'), ('inputs-after', ('tuple', [('tuple', []), ('str', "
                             '"\'dim\'")]), (\'dict\', [])))',
 "transform_group/12/'dim'/keyword": "(('raises', 'ValueError', 'not enough values to unpack "
                                     "(expected 2, got 0)'), ('inputs-after', ('tuple', [('tuple', "
                                     '[])]), (\'dict\', [((\'str\', "\'dim\'"), (\'str\', '
                                     '"\'dim\'"))])))',
 "transform_group/12/'mid_precision_coeffs'": "(('raises', 'ValueError', 'not enough values to "
                                              "unpack (expected 2, got 0)'), ('inputs-after', "
                                              "('tuple', [('tuple', []), ('str', "
                                              '"\'mid_precision_coeffs\'")]), (\'dict\', [])))',
 "transform_group/12/'mid_precision_coeffs'/keyword": "(('raises', 'ValueError', 'not enough "
                                                      "values to unpack (expected 2, got 0)'), "
                                                      "('inputs-after', ('tuple', [('tuple', "
                                                      '[])]), (\'dict\', [((\'str\', "\'dim\'"), '
                                                      '(\'str\', "\'mid_precision_coeffs\'"))])))',
 'transform_group/12/identities': "(('raises', 'ValueError', 'not enough values to unpack "
                                  "(expected 2, got 0)'), ('inputs-after', ('tuple', [('tuple', "
                                  "[])]), ('dict', [])))",
 "transform_group/13/'dim'": '((\'raises\', \'AttributeError\', "\'list\' object has no attribute '
                             '\'keys\'"), (\'inputs-after\', (\'tuple\', [(\'tuple\', [(\'list\', '
                             '[(\'tuple\', [(\'str\', "\'a\'"), (\'list\', [(\'int\', '
                             '\'1\')])])]), (\'dict\', [])]), (\'str\', "\'dim\'")]), (\'dict\', '
                             '[])))',
 "transform_group/13/'dim'/keyword": '((\'raises\', \'AttributeError\', "\'list\' object has no '
                                     'attribute \'keys\'"), (\'inputs-after\', (\'tuple\', '
                                     '[(\'tuple\', [(\'list\', [(\'tuple\', [(\'str\', "\'a\'"), '
                                     "('list', [('int', '1')])])]), ('dict', [])])]), ('dict', "
                                     '[((\'str\', "\'dim\'"), (\'str\', "\'dim\'"))])))',
 "transform_group/13/'mid_precision_coeffs'": '((\'raises\', \'AttributeError\', "\'list\' object '
                                              'has no attribute \'keys\'"), (\'inputs-after\', '
                                              "('tuple', [('tuple', [('list', [('tuple', [('str', "
                                              '"\'a\'"), (\'list\', [(\'int\', \'1\')])])]), '
                                              "('dict', [])]), ('str', "
                                              '"\'mid_precision_coeffs\'")]), (\'dict\', [])))',
 "transform_group/13/'mid_precision_coeffs'/keyword": '((\'raises\', \'AttributeError\', "\'list\' '
                                                      'object has no attribute \'keys\'"), '
                                                      "('inputs-after', ('tuple', [('tuple', "
                                                      "[('list', [('tuple', [('str', "
                                                      '"\'a\'"), (\'list\', [(\'int\', '
                                                      "'1')])])]), ('dict', [])])]), ('dict', "
                                                      '[((\'str\', "\'dim\'"), (\'str\', '
                                                      '"\'mid_precision_coeffs\'"))])))',
 'transform_group/13/identities': '((\'raises\', \'AttributeError\', "\'list\' object has no '
                                  'attribute \'keys\'"), (\'inputs-after\', (\'tuple\', '
                                  '[(\'tuple\', [(\'list\', [(\'tuple\', [(\'str\', "\'a\'"), '
                                  "('list', [('int', '1')])])]), ('dict', [])])]), ('dict', [])))",
 "transform_group/14/'dim'": '((\'raises\', \'AttributeError\', "\'list\' object has no attribute '
                             '\'keys\'"), (\'inputs-after\', (\'tuple\', [(\'tuple\', [(\'list\', '
                             "[('int', '1'), ('int', '2')]), ('dict', [])]), ('str', "
                             '"\'dim\'")]), (\'dict\', [])))',
 "transform_group/14/'dim'/keyword": '((\'raises\', \'AttributeError\', "\'list\' object has no '
                                     'attribute \'keys\'"), (\'inputs-after\', (\'tuple\', '
                                     "[('tuple', [('list', [('int', '1'), ('int', '2')]), ('dict', "
                                     '[])])]), (\'dict\', [((\'str\', "\'dim\'"), (\'str\', '
                                     '"\'dim\'"))])))',
 "transform_group/14/'mid_precision_coeffs'": '((\'raises\', \'AttributeError\', "\'list\' object '
                                              'has no attribute \'keys\'"), (\'inputs-after\', '
                                              "('tuple', [('tuple', [('list', [('int', '1'), "
                                              "('int', '2')]), ('dict', [])]), ('str', "
                                              '"\'mid_precision_coeffs\'")]), (\'dict\', [])))',
 "transform_group/14/'mid_precision_coeffs'/keyword": '((\'raises\', \'AttributeError\', "\'list\' '
                                                      'object has no attribute \'keys\'"), '
                                                      "('inputs-after', ('tuple', [('tuple', "
                                                      "[('list', [('int', '1'), ('int', '2')]), "
                                                      "('dict', [])])]), ('dict', [(('str', "
                                                      '"\'dim\'"), (\'str\', '
                                                      '"\'mid_precision_coeffs\'"))])))',
 'transform_group/14/identities': '((\'raises\', \'AttributeError\', "\'list\' object has no '
                                  'attribute \'keys\'"), (\'inputs-after\', (\'tuple\', '
                                  "[('tuple', [('list', [('int', '1'), ('int', '2')]), ('dict', "
                                  "[])])]), ('dict', [])))",
 "transform_group/15/'dim'": '((\'raises\', \'AttributeError\', "\'NoneType\' object has no '
                             'attribute \'keys\'"), (\'inputs-after\', (\'tuple\', [(\'tuple\', '
                             '[(\'NoneType\', \'None\'), (\'dict\', [])]), (\'str\', "\'dim\'")]), '
                             "('dict', [])))",
 "transform_group/15/'dim'/keyword": '((\'raises\', \'AttributeError\', "\'NoneType\' object has '
                                     'no attribute \'keys\'"), (\'inputs-after\', (\'tuple\', '
                                     "[('tuple', [('NoneType', 'None'), ('dict', [])])]), ('dict', "
                                     '[((\'str\', "\'dim\'"), (\'str\', "\'dim\'"))])))',
 "transform_group/15/'mid_precision_coeffs'": '((\'raises\', \'AttributeError\', "\'NoneType\' '
                                              'object has no attribute \'keys\'"), '
                                              "('inputs-after', ('tuple', [('tuple', [('NoneType', "
                                              "'None'), ('dict', [])]), ('str', "
                                              '"\'mid_precision_coeffs\'")]), (\'dict\', [])))',
 "transform_group/15/'mid_precision_coeffs'/keyword": "(('raises', 'AttributeError', "
                                                      '"\'NoneType\' object has no attribute '
                                                      '\'keys\'"), (\'inputs-after\', (\'tuple\', '
                                                      "[('tuple', [('NoneType', 'None'), ('dict', "
                                                      '[])])]), (\'dict\', [((\'str\', "\'dim\'"), '
                                                      '(\'str\', "\'mid_precision_coeffs\'"))])))',
 'transform_group/15/identities': '((\'raises\', \'AttributeError\', "\'NoneType\' object has no '
                                  'attribute \'keys\'"), (\'inputs-after\', (\'tuple\', '
                                  "[('tuple', [('NoneType', 'None'), ('dict', [])])]), ('dict', "
                                  '[])))',
 "transform_group/16/'dim'": '((\'raises\', \'AttributeError\', "\'str\' object has no attribute '
                             '\'keys\'"), (\'inputs-after\', (\'tuple\', [(\'tuple\', [(\'str\', '
                             '"\'ab\'"), (\'dict\', [])]), (\'str\', "\'dim\'")]), (\'dict\', '
                             '[])))',
 "transform_group/16/'dim'/keyword": '((\'raises\', \'AttributeError\', "\'str\' object has no '
                                     'attribute \'keys\'"), (\'inputs-after\', (\'tuple\', '
                                     '[(\'tuple\', [(\'str\', "\'ab\'"), (\'dict\', [])])]), '
                                     '(\'dict\', [((\'str\', "\'dim\'"), (\'str\', "\'dim\'"))])))',
 "transform_group/16/'mid_precision_coeffs'": '((\'raises\', \'AttributeError\', "\'str\' object '
                                              'has no attribute \'keys\'"), (\'inputs-after\', '
                                              '(\'tuple\', [(\'tuple\', [(\'str\', "\'ab\'"), '
                                              "('dict', [])]), ('str', "
                                              '"\'mid_precision_coeffs\'")]), (\'dict\', [])))',
 "transform_group/16/'mid_precision_coeffs'/keyword": '((\'raises\', \'AttributeError\', "\'str\' '
                                                      'object has no attribute \'keys\'"), '
                                                      "('inputs-after', ('tuple', [('tuple', "
                                                      '[(\'str\', "\'ab\'"), (\'dict\', [])])]), '
                                                      '(\'dict\', [((\'str\', "\'dim\'"), '
                                                      '(\'str\', "\'mid_precision_coeffs\'"))])))',
 'transform_group/16/identities': '((\'raises\', \'AttributeError\', "\'str\' object has no '
                                  'attribute \'keys\'"), (\'inputs-after\', (\'tuple\', '
                                  '[(\'tuple\', [(\'str\', "\'ab\'"), (\'dict\', [])])]), '
                                  "('dict', [])))",
 "transform_group/17/'dim'": '((\'raises\', \'AttributeError\', "\'str\' object has no attribute '
                             '\'keys\'"), (\'inputs-after\', (\'tuple\', [(\'dict\', [((\'str\', '
                             '"\'a\'"), (\'list\', [(\'int\', \'1\')])), ((\'str\', "\'b\'"), '
                             '(\'dict\', []))]), (\'str\', "\'dim\'")]), (\'dict\', [])))',
 "transform_group/17/'dim'/keyword": '((\'raises\', \'AttributeError\', "\'str\' object has no '
                                     'attribute \'keys\'"), (\'inputs-after\', (\'tuple\', '
                                     '[(\'dict\', [((\'str\', "\'a\'"), (\'list\', [(\'int\', '
                                     '\'1\')])), ((\'str\', "\'b\'"), (\'dict\', []))])]), '
                                     '(\'dict\', [((\'str\', "\'dim\'"), (\'str\', "\'dim\'"))])))',
 "transform_group/17/'mid_precision_coeffs'": '((\'raises\', \'AttributeError\', "\'str\' object '
                                              'has no attribute \'keys\'"), (\'inputs-after\', '
                                              '(\'tuple\', [(\'dict\', [((\'str\', "\'a\'"), '
                                              "('list', [('int', '1')])), (('str', "
                                              '"\'b\'"), (\'dict\', []))]), (\'str\', '
                                              '"\'mid_precision_coeffs\'")]), (\'dict\', [])))',
 "transform_group/17/'mid_precision_coeffs'/keyword": '((\'raises\', \'AttributeError\', "\'str\' '
                                                      'object has no attribute \'keys\'"), '
                                                      "('inputs-after', ('tuple', [('dict', "
                                                      '[((\'str\', "\'a\'"), (\'list\', [(\'int\', '
                                                      '\'1\')])), ((\'str\', "\'b\'"), (\'dict\', '
                                                      "[]))])]), ('dict', [(('str', "
                                                      '"\'dim\'"), (\'str\', '
                                                      '"\'mid_precision_coeffs\'"))])))',
 'transform_group/17/identities': '((\'raises\', \'AttributeError\', "\'str\' object has no '
                                  'attribute \'keys\'"), (\'inputs-after\', (\'tuple\', '
                                  '[(\'dict\', [((\'str\', "\'a\'"), (\'list\', [(\'int\', '
                                  '\'1\')])), ((\'str\', "\'b\'"), (\'dict\', []))])]), (\'dict\', '
                                  '[])))',
 "transform_group/18/'dim'": "(('raises', 'ValueError', 'not enough values to unpack (expected 2, "
                             "got 1)'), ('inputs-after', ('tuple', [('dict', [(('str', "
                             '"\'a\'"), (\'list\', [(\'int\', \'1\')]))]), (\'str\', "\'dim\'")]), '
                             "('dict', [])))",
 "transform_group/18/'dim'/keyword": "(('raises', 'ValueError', 'not enough values to unpack "
                                     "(expected 2, got 1)'), ('inputs-after', ('tuple', [('dict', "
                                     '[((\'str\', "\'a\'"), (\'list\', [(\'int\', \'1\')]))])]), '
                                     '(\'dict\', [((\'str\', "\'dim\'"), (\'str\', "\'dim\'"))])))',
 "transform_group/18/'mid_precision_coeffs'": "(('raises', 'ValueError', 'not enough values to "
                                              "unpack (expected 2, got 1)'), ('inputs-after', "
                                              '(\'tuple\', [(\'dict\', [((\'str\', "\'a\'"), '
                                              "('list', [('int', '1')]))]), ('str', "
                                              '"\'mid_precision_coeffs\'")]), (\'dict\', [])))',
 "transform_group/18/'mid_precision_coeffs'/keyword": "(('raises', 'ValueError', 'not enough "
                                                      "values to unpack (expected 2, got 1)'), "
                                                      "('inputs-after', ('tuple', [('dict', "
                                                      '[((\'str\', "\'a\'"), (\'list\', [(\'int\', '
                                                      "'1')]))])]), ('dict', [(('str', "
                                                      '"\'dim\'"), (\'str\', '
                                                      '"\'mid_precision_coeffs\'"))])))',
 'transform_group/18/identities': "(('raises', 'ValueError', 'not enough values to unpack "
                                  "(expected 2, got 1)'), ('inputs-after', ('tuple', [('dict', "
                                  '[((\'str\', "\'a\'"), (\'list\', [(\'int\', \'1\')]))])]), '
                                  "('dict', [])))",
 "transform_group/19/'dim'": '((\'raises\', \'AttributeError\', "\'str\' object has no attribute '
                             '\'keys\'"), (\'inputs-after\', (\'tuple\', [(\'str\', "\'ab\'"), '
                             '(\'str\', "\'dim\'")]), (\'dict\', [])))',
 "transform_group/19/'dim'/keyword": '((\'raises\', \'AttributeError\', "\'str\' object has no '
                                     'attribute \'keys\'"), (\'inputs-after\', (\'tuple\', '
                                     '[(\'str\', "\'ab\'")]), (\'dict\', [((\'str\', "\'dim\'"), '
                                     '(\'str\', "\'dim\'"))])))',
 "transform_group/19/'mid_precision_coeffs'": '((\'raises\', \'AttributeError\', "\'str\' object '
                                              'has no attribute \'keys\'"), (\'inputs-after\', '
                                              '(\'tuple\', [(\'str\', "\'ab\'"), (\'str\', '
                                              '"\'mid_precision_coeffs\'")]), (\'dict\', [])))',
 "transform_group/19/'mid_precision_coeffs'/keyword": '((\'raises\', \'AttributeError\', "\'str\' '
                                                      'object has no attribute \'keys\'"), '
                                                      "('inputs-after', ('tuple', [('str', "
                                                      '"\'ab\'")]), (\'dict\', [((\'str\', '
                                                      '"\'dim\'"), (\'str\', '
                                                      '"\'mid_precision_coeffs\'"))])))',
 'transform_group/19/identities': '((\'raises\', \'AttributeError\', "\'str\' object has no '
                                  'attribute \'keys\'"), (\'inputs-after\', (\'tuple\', [(\'str\', '
                                  '"\'ab\'")]), (\'dict\', [])))',
 "transform_group/20/'dim'": "(('raises', 'ValueError', 'too many values to unpack (expected 2)'), "
                             '(\'inputs-after\', (\'tuple\', [(\'str\', "\'abc\'"), (\'str\', '
                             '"\'dim\'")]), (\'dict\', [])))',
 "transform_group/20/'dim'/keyword": "(('raises', 'ValueError', 'too many values to unpack "
                                     "(expected 2)'), ('inputs-after', ('tuple', [('str', "
                                     '"\'abc\'")]), (\'dict\', [((\'str\', "\'dim\'"), (\'str\', '
                                     '"\'dim\'"))])))',
 "transform_group/20/'mid_precision_coeffs'": "(('raises', 'ValueError', 'too many values to "
                                              "unpack (expected 2)'), ('inputs-after', ('tuple', "
                                              '[(\'str\', "\'abc\'"), (\'str\', '
                                              '"\'mid_precision_coeffs\'")]), (\'dict\', [])))',
 "transform_group/20/'mid_precision_coeffs'/keyword": "(('raises', 'ValueError', 'too many values "
                                                      "to unpack (expected 2)'), ('inputs-after', "
                                                      '(\'tuple\', [(\'str\', "\'abc\'")]), '
                                                      '(\'dict\', [((\'str\', "\'dim\'"), '
                                                      '(\'str\', "\'mid_precision_coeffs\'"))])))',
 'transform_group/20/identities': "(('raises', 'ValueError', 'too many values to unpack (expected "
                                  '2)\'), (\'inputs-after\', (\'tuple\', [(\'str\', "\'abc\'")]), '
                                  "('dict', [])))",
 "transform_group/21/'dim'": "(('raises', 'TypeError', 'cannot unpack non-iterable int object'), "
                             "('inputs-after', ('tuple', [('int', '1'), ('str', "
                             '"\'dim\'")]), (\'dict\', [])))',
 "transform_group/21/'dim'/keyword": "(('raises', 'TypeError', 'cannot unpack non-iterable int "
                                     "object'), ('inputs-after', ('tuple', [('int', '1')]), "
                                     '(\'dict\', [((\'str\', "\'dim\'"), (\'str\', "\'dim\'"))])))',
 "transform_group/21/'mid_precision_coeffs'": "(('raises', 'TypeError', 'cannot unpack "
                                              "non-iterable int object'), ('inputs-after', "
                                              "('tuple', [('int', '1'), ('str', "
                                              '"\'mid_precision_coeffs\'")]), (\'dict\', [])))',
 "transform_group/21/'mid_precision_coeffs'/keyword": "(('raises', 'TypeError', 'cannot unpack "
                                                      "non-iterable int object'), ('inputs-after', "
                                                      "('tuple', [('int', '1')]), ('dict', "
                                                      '[((\'str\', "\'dim\'"), (\'str\', '
                                                      '"\'mid_precision_coeffs\'"))])))',
 'transform_group/21/identities': "(('raises', 'TypeError', 'cannot unpack non-iterable int "
                                  "object'), ('inputs-after', ('tuple', [('int', '1')]), ('dict', "
                                  '[])))',
 "transform_group/22/'dim'": "(('raises', 'TypeError', 'cannot unpack non-iterable NoneType "
                             "object'), ('inputs-after', ('tuple', [('NoneType', 'None'), ('str', "
                             '"\'dim\'")]), (\'dict\', [])))',
 "transform_group/22/'dim'/keyword": "(('raises', 'TypeError', 'cannot unpack non-iterable "
                                     "NoneType object'), ('inputs-after', ('tuple', [('NoneType', "
                                     '\'None\')]), (\'dict\', [((\'str\', "\'dim\'"), (\'str\', '
                                     '"\'dim\'"))])))',
 "transform_group/22/'mid_precision_coeffs'": "(('raises', 'TypeError', 'cannot unpack "
                                              "non-iterable NoneType object'), ('inputs-after', "
                                              "('tuple', [('NoneType', 'None'), ('str', "
                                              '"\'mid_precision_coeffs\'")]), (\'dict\', [])))',
 "transform_group/22/'mid_precision_coeffs'/keyword": "(('raises', 'TypeError', 'cannot unpack "
                                                      "non-iterable NoneType object'), "
                                                      "('inputs-after', ('tuple', [('NoneType', "
                                                      "'None')]), ('dict', [(('str', "
                                                      '"\'dim\'"), (\'str\', '
                                                      '"\'mid_precision_coeffs\'"))])))',
 'transform_group/22/identities': "(('raises', 'TypeError', 'cannot unpack non-iterable NoneType "
                                  "object'), ('inputs-after', ('tuple', [('NoneType', 'None')]), "
                                  "('dict', [])))",
 "transform_group/23/'dim'": "(('raises', 'TypeError', 'cannot unpack non-iterable float object'), "
                             "('inputs-after', ('tuple', [('float', '1.5'), ('str', "
                             '"\'dim\'")]), (\'dict\', [])))',
 "transform_group/23/'dim'/keyword": "(('raises', 'TypeError', 'cannot unpack non-iterable float "
                                     "object'), ('inputs-after', ('tuple', [('float', '1.5')]), "
                                     '(\'dict\', [((\'str\', "\'dim\'"), (\'str\', "\'dim\'"))])))',
 "transform_group/23/'mid_precision_coeffs'": "(('raises', 'TypeError', 'cannot unpack "
                                              "non-iterable float object'), ('inputs-after', "
                                              "('tuple', [('float', '1.5'), ('str', "
                                              '"\'mid_precision_coeffs\'")]), (\'dict\', [])))',
 "transform_group/23/'mid_precision_coeffs'/keyword": "(('raises', 'TypeError', 'cannot unpack "
                                                      "non-iterable float object'), "
                                                      "('inputs-after', ('tuple', [('float', "
                                                      "'1.5')]), ('dict', [(('str', "
                                                      '"\'dim\'"), (\'str\', '
                                                      '"\'mid_precision_coeffs\'"))])))',
 'transform_group/23/identities': "(('raises', 'TypeError', 'cannot unpack non-iterable float "
                                  "object'), ('inputs-after', ('tuple', [('float', '1.5')]), "
                                  "('dict', [])))",
 'transform_group/missing-dim': '((\'raises\', \'TypeError\', "transform_group() missing 1 '
                                'required positional argument: \'dim\'"), (\'inputs-after\', '
                                '(\'tuple\', [(\'tuple\', [(\'dict\', [((\'str\', "\'a\'"), '
                                "('int', '1'))]), ('dict', [])])]), ('dict', [])))",
 'transform_group/keywords': 'sha256[ok]:2580814d96d10de90c1d6fd3281ac4c5a76cc46ae9e1b9fbe580f6f6938d2356:322',
 'transform_auxiliary_file/number[-1]': 'sha256[ok]:b3e030418b299dc3bc4ce2ef0ad32a5e44fdf8eae4554a48c2516a98f1e0afd1:396',
 'transform_auxiliary_file/number[0]': 'sha256[ok]:a7715dfecadf0c797ff2b4d418d78aafa960c222a55de877d26f9411c81a3b24:395',
 'transform_auxiliary_file/number[1]': 'sha256[ok]:461c0142f7d93533dbcad1f6807ec22254af1449496b9c330eeb14bac2d78ffe:398',
 'transform_auxiliary_file/number[2]': 'sha256[ok]:ed3fbb5d938c19d348977283e8e7a0cc57beb28620b8eba8b807bac9026e86a2:408',
 'transform_auxiliary_file/number[3]': 'sha256[ok]:4076424d87fef210264a673bd91115fe02e831e783c201b7899c08a18ab5d484:410',
 'transform_auxiliary_file/number[4]': 'sha256[ok]:862069f83f7461c149fc53f6d904d8f6720533902a5ce314a423066e0421696c:421',
 'transform_auxiliary_file/number[5]': 'sha256[ok]:e809c90b837fd07380669b7dd306f8463d65f5e90ad12584f752e170333e6d6e:395',
 'transform_auxiliary_file/number[6]': 'sha256[ok]:3d20bfe05530cd8bef79d92bc8bdc9e0f2cbc18aa8656cab478fc93a7fd184d7:395',
 'transform_auxiliary_file/number[1.0]': 'sha256[ok]:1e7a0517a5c4b3125b9b0613011c353d945dc6f0e9cd54bf34464992f935ce91:402',
 'transform_auxiliary_file/number[2.5]': 'sha256[ok]:06285630ffa413f6cbe4d0c8c0dfc649f74bc5414170bf02505c8f5da5a10884:399',
 'transform_auxiliary_file/number[True]': 'sha256[ok]:db43b4d25cac2d80309be89c3f7480ec68dd3d985f3eb94271eb7e5ff6078572:402',
 'transform_auxiliary_file/number[False]': 'sha256[ok]:2344f261c8099b7d3a360ce473d1d46dffec93f560c202b240d0c8126b8aecfe:400',
 'transform_auxiliary_file/number[None]': 'sha256[ok]:7213612cecf90c6b202210f13252bc808d4dfbcaeb0e48f0d87e8e3af22dab60:403',
 "transform_auxiliary_file/number['1']": 'sha256[ok]:d4a289741488ed29512f2cbc6f340afcccf61f87fb26f45aa3515f69fe95321b:397',
 "transform_auxiliary_file/number['']": 'sha256[ok]:a6a03160e0e3d9eb6a3a4fbd1c05a19030c1abfa207ba2dfd0a2c8d889967db1:396',
 'transform_auxiliary_file/number[(1,)]': 'sha256[ok]:42456439dfcdfeb317689ada035137b41609b0c5dd6e8801c2e0e705fd23d9d7:408',
 'transform_auxiliary_file/number[nan]': 'sha256[ok]:456a4b9f78ccdae713d5fbef3c7653d40621a4aaa77ff1b3406dfc597910812f:399',
 'transform_auxiliary_file/unhashable-list': '((\'raises\', \'TypeError\', "unhashable type: '
                                             '\'list\'"), (\'inputs-after\', (\'tuple\', '
                                             "[('dict', [(('str', "
                                             '"\'record_sequence_number\'"), (\'list\', [(\'int\', '
                                             "'1')]))])]), ('dict', [])))",
 'transform_auxiliary_file/unhashable-dict': '((\'raises\', \'TypeError\', "unhashable type: '
                                             '\'dict\'"), (\'inputs-after\', (\'tuple\', '
                                             "[('dict', [(('str', "
                                             '"\'record_sequence_number\'"), (\'dict\', []))])]), '
                                             "('dict', [])))",
 'transform_auxiliary_file/missing-number': "(('ok', ('dict', [(('str', "
                                            '"\'raw_file_data\'"), (\'str\', "\'x\'"))])), '
                                            "('inputs-after', ('tuple', [('dict', [(('str', "
                                            '"\'preamble\'"), (\'dict\', [])), ((\'str\', '
                                            '"\'raw_file_data\'"), (\'str\', "\'x\'"))])]), '
                                            "('dict', [])))",
 'transform_auxiliary_file/empty': "(('ok', ('dict', [])), ('inputs-after', ('tuple', [('dict', "
                                   "[])]), ('dict', [])))",
 'transform_auxiliary_file/only-ignored': "(('ok', ('dict', [])), ('inputs-after', ('tuple', "
                                          '[(\'dict\', [((\'str\', "\'preamble\'"), (\'dict\', '
                                          '[])), ((\'str\', "\'blanks\'"), (\'str\', "\'\'")), '
                                          '((\'str\', "\'spare1\'"), (\'int\', \'1\')), ((\'str\', '
                                          '"\'blanks22\'"), (\'int\', \'2\'))])]), (\'dict\', '
                                          '[])))',
 'transform_auxiliary_file/order': 'sha256[ok]:65e4faca1d85a5a8d172e75a2a632abccaecc73d6bfa44f5b7f52b95cc5deed6:450',
 'transform_auxiliary_file/collision': '((\'ok\', (\'dict\', [((\'str\', "\'data_type\'"), '
                                       '(\'str\', "\'kept?\'"))])), (\'inputs-after\', (\'tuple\', '
                                       '[(\'dict\', [((\'str\', "\'record_sequence_number\'"), '
                                       '(\'int\', \'3\')), ((\'str\', "\'data_type\'"), (\'str\', '
                                       '"\'kept?\'"))])]), (\'dict\', [])))',
 'transform_auxiliary_file/collision-reversed': "(('ok', ('dict', [(('str', "
                                                '"\'data_type\'"), (\'str\', "\'time error '
                                                'information\'"))])), (\'inputs-after\', '
                                                "('tuple', [('dict', [(('str', "
                                                '"\'data_type\'"), (\'str\', "\'kept?\'")), '
                                                '((\'str\', "\'record_sequence_number\'"), '
                                                "('int', '3'))])]), ('dict', [])))",
 'transform_auxiliary_file/nested-spares': 'sha256[ok]:2b54246ddecf2b6473847891646dbb8adf111433640458787f85576d9cf30bc7:648',
 'transform_auxiliary_file/near-misses': 'sha256[ok]:fee642c70dbb724dc6834bd51889285e4502d2b12be0a82ddefbbc9cb8de1892:415',
 'transform_auxiliary_file/ordered-dict': '((\'ok\', (\'dict\', [((\'str\', "\'raw_file_data\'"), '
                                          '(\'str\', "\'x\'")), ((\'str\', "\'data_type\'"), '
                                          '(\'str\', "\'dummy data\'"))])), (\'inputs-after\', '
                                          "('tuple', [('OrderedDict', [(('str', "
                                          '"\'raw_file_data\'"), (\'str\', "\'x\'")), ((\'str\', '
                                          '"\'record_sequence_number\'"), (\'int\', \'1\'))])]), '
                                          "('dict', [])))",
 'transform_auxiliary_file/int-key': '((\'raises\', \'AttributeError\', "\'int\' object has no '
                                     'attribute \'startswith\'"), (\'inputs-after\', (\'tuple\', '
                                     "[('dict', [(('int', '1'), ('int', '2'))])]), ('dict', [])))",
 'transform_auxiliary_file/list': '((\'raises\', \'AttributeError\', "\'list\' object has no '
                                  'attribute \'items\'"), (\'inputs-after\', (\'tuple\', '
                                  "[('list', [('dict', [(('str', "
                                  '"\'record_sequence_number\'"), (\'int\', \'1\'))])])]), '
                                  "('dict', [])))",
 'transform_auxiliary_file/tuple': '((\'raises\', \'AttributeError\', "\'tuple\' object has no '
                                   'attribute \'items\'"), (\'inputs-after\', (\'tuple\', '
                                   "[('tuple', [('dict', [(('str', "
                                   '"\'record_sequence_number\'"), (\'int\', \'1\'))]), (\'dict\', '
                                   "[])])]), ('dict', [])))",
 'transform_auxiliary_file/none': '((\'raises\', \'AttributeError\', "\'NoneType\' object has no '
                                  'attribute \'items\'"), (\'inputs-after\', (\'tuple\', '
                                  "[('NoneType', 'None')]), ('dict', [])))",
 'transform_auxiliary_file/string': '((\'raises\', \'AttributeError\', "\'str\' object has no '
                                    'attribute \'items\'"), (\'inputs-after\', (\'tuple\', '
                                    '[(\'str\', "\'preamble\'")]), (\'dict\', [])))',
 'transform_auxiliary_file/int': '((\'raises\', \'AttributeError\', "\'int\' object has no '
                                 'attribute \'items\'"), (\'inputs-after\', (\'tuple\', [(\'int\', '
                                 "'3')]), ('dict', [])))",
 'transform_record5/full': 'sha256[ok]:a7ed5fe2747bee2a2eaaba0aae00cf554ca8b42801b846e7681cd399da3bee61:5640',
 'transform_record5/reversed': 'sha256[ok]:d5e1cdee2f38149274df4cca0322d1ee988e5fbf72354ba040a9e802d808844f:5640',
 'transform_record5/empty': "(('ok', ('Group', '/', None, ('dict', []), [])), ('inputs-after', "
                            "('tuple', [('dict', [])]), ('dict', [])))",
 'transform_record5/only-ignored': "(('ok', ('Group', '/', None, ('dict', []), [])), "
                                   "('inputs-after', ('tuple', [('dict', [(('str', "
                                   '"\'preamble\'"), (\'int\', \'1\')), ((\'str\', '
                                   '"\'record_sequence_number\'"), (\'int\', \'2\')), ((\'str\', '
                                   '"\'system_reserve\'"), (\'str\', "\'x\'"))])]), (\'dict\', '
                                   '[])))',
 'transform_record5/prf-0': 'sha256[ok]:b3d420ec7b010c4b74e5611d81ea8d24224b21c092c22aa7afc6f917318e8b38:5641',
 'transform_record5/prf-blank': 'sha256[ok]:6425b6b170bc8b6233092d723c86aaee8c22830517d4917ec1120bc13d423b6b:5641',
 'transform_record5/prf-none': 'sha256[ok]:0b31a3234c649d3b70ae12655c7ec74748246be69d9f9b1723cc2b05ad744e24:5649',
 'transform_record5/prf-list': 'sha256[ok]:d9efc97e1cd3182ac0570aeff311277677af8f4da4811e9d8625981a0e5ce21a:5641',
 'transform_record5/prf-array': 'sha256[raises]:f1214dff1f085fe7314fa26e0c5035ab22d49339d835256a7ffebf1089e57e5f:2902',
 'transform_record5/prf-missing': 'sha256[ok]:baeae29e3f1b1743077db09ab889fb2ab9412fa8e130e8a3640f8267199732a6:5543',
 'transform_record5/no-conversions': 'sha256[ok]:f485cf5cfbcc73a38475dd9b58663cca73d1edad61e33a8ef2127c00be515032:1804',
 'transform_record5/conversion-empty': 'sha256[ok]:8f1cb2bd6b02e278fb72fb6b668ebd281baf24a2042320fc65a57f58c6f434a4:4357',
 'transform_record5/conversion-no-attrs': 'sha256[raises]:68b84b84450020f8a72eeb48b5dfff5db2e0c38ec90b543e74b5c1dff3ab95de:2724',
 'transform_record5/conversion-int': 'sha256[raises]:3fe27e604801d7980705ea718a990c7cd1579a71569d9b6165cc470697f6f474:2471',
 'transform_record5/conversion-none': 'sha256[raises]:86a6e3c90543f0b9d57378d9f1ce7024ad1477d2474bdf0fdfa0307a89f28c80:2199',
 'transform_record5/conversion-1-tuple': 'sha256[raises]:287b879c4f45ff06e57db2284505c7124b9b62225defed77dd059fe6334ee7a1:2210',
 'transform_record5/conversion-3-tuple': 'sha256[raises]:1269c663b5e40728c3f7f31a18a58b840e93edc5fd40565b946ae0837f594c20:2514',
 'transform_record5/conversion-list-mapping': 'sha256[raises]:a0b686e86b3546c322b1eec90594eb9343db229a29d3b72b6671f7fdbef4a7a6:2228',
 'transform_record5/conversion-attrs-none': 'sha256[raises]:1f055383e4beca87e2080bb5d754c85eaacad30c14854ed348f90b8a2a3eea2c:2284',
 'transform_record5/conversion-nested': 'sha256[ok]:0db2541b3ea5f2920d88708d7521714d82a574fb1f76e651656f1ac2f6c88e10:4804',
 'transform_record5/conversion-spares': 'sha256[ok]:2be904beabe22f7b01d08105e760cb6f3c39c6fa195391027b539d24134bbb70:4826',
 'transform_record5/collision': 'sha256[ok]:9ef112068f2615774dc7c3602be0bae90295dcc059270636914b60c6a105f35b:5423',
 'transform_record5/collision-first': 'sha256[ok]:5d0ae308a3655a993d17cfbc575a06200b543fad46474b81beaed93441c2b7d0:5688',
 'transform_record5/near-misses': 'sha256[ok]:c736254d243501ef2a2ffa06a768202bf3c05213eda6cb9afc2cb80ab2bcbf85:5928',
 'transform_record5/extra': 'sha256[raises]:7b567e789493a00c443862b9966bb029f2910e2c2cb9ffaa01c2b9618f306515:3039',
 'transform_record5/ordered-dict': 'sha256[ok]:0f1470496350e93cac3d0b2d5da098f8a13642014fc22ec7c678a57a399b5c48:5647',
 'transform_record5/list': 'sha256[raises]:c2ba7e3d5a77b02e5e6ddb535213967fab18add26f51f424aef3e325a4f0cef1:2811',
 'transform_record5/tuple': 'sha256[raises]:2eaa2f5374fd1d0ca4daecee7cb2a07811bf70ca360372c798642d695133d7cd:2827',
 'transform_record5/none': '((\'raises\', \'AttributeError\', "\'NoneType\' object has no '
                           'attribute \'items\'"), (\'inputs-after\', (\'tuple\', [(\'NoneType\', '
                           "'None')]), ('dict', [])))",
 'transform_record5/string': '((\'raises\', \'AttributeError\', "\'str\' object has no attribute '
                             '\'items\'"), (\'inputs-after\', (\'tuple\', [(\'str\', '
                             '"\'preamble\'")]), (\'dict\', [])))',
 'transform_record5/int-key': '((\'raises\', \'AttributeError\', "\'int\' object has no attribute '
                              '\'startswith\'"), (\'inputs-after\', (\'tuple\', [(\'dict\', '
                              "[(('int', '1'), ('int', '2'))])]), ('dict', [])))",
 'records/0/transform_auxiliary_file': 'sha256[ok]:c84e1fb22fa34faff820bce410b6619d6ff1924e7a3dd6c4984a426e7d4f7e7e:675',
 'records/0/transform_record5': 'sha256[ok]:737b5ba18e38195a76fa79e8d5691089adc9d5156e7faa3d61b0909be4191724:12709',
 'records/0/transform_group/conversion_from_map_projection_to_pixel': 'sha256[ok]:4321d0964d5ad08eb84fb9a333be52b41518e51c7e40f70409a88056f65a680b:1784',
 'records/0/transform_group/conversion_from_pixel_to_geographic': 'sha256[ok]:771e0b4435f804878c36aed9b57c8e5ab4c537d673ea06ff380b4d16647721fa:4332',
 'records/0/transform_group/conversion_from_geographic_to_pixel': 'sha256[ok]:50a6a46d84601b670baa5edf14cac1e79bdf12639c2aae5ea6e79dab220a58df:4252',
 'records/0/transform_metadata': 'sha256[ok]:b4ff4d8c62f9e4e3c8fee92a7da01ea74d6afb6b8b3fa55fabeb300ae6440228:121009',
 'records/0/transform_metadata/record5-only': 'sha256[ok]:669763e883b356c5b0b5a21e75ede9787c71bdc336c0358e7c022471c579304f:12942',
 'records/1/transform_auxiliary_file': 'sha256[ok]:8f123c354c9248fb3c3639cafa869c125d3981951a5dd55e7a32c774fddbc3f9:642',
 'records/1/transform_record5': 'sha256[ok]:82a833511a380860ec5ac4fb4e99c1b8cfe743510d4f27eb85a2380930071434:12562',
 'records/1/transform_group/conversion_from_map_projection_to_pixel': 'sha256[ok]:93681ad1aba4c95b57e2af1e812f8add362935de62508c07f6a8797898c65e05:1766',
 'records/1/transform_group/conversion_from_pixel_to_geographic': 'sha256[ok]:493b3c9bd8efb20e159dec5a474cad78d0a430da17b3578a4e14c0fde19b3649:4222',
 'records/1/transform_group/conversion_from_geographic_to_pixel': 'sha256[ok]:fd9aec82012f39f94fee412eb71e3d54e7809584386bdbd19df431a801f3bcbc:4220',
 'records/1/transform_metadata': 'sha256[ok]:e6384251b66e70319b7a9b07b5d1afe6b28b0f6bb3b520b1a97dd203b4dd66bf:120456',
 'records/1/transform_metadata/record5-only': 'sha256[ok]:b64960419835dd065c0fb463244c37c6e85902b4c69dc06eeb3b7f6bcd6fb6b4:12795',
 'records/2/transform_auxiliary_file': 'sha256[ok]:a6cb0f33efb1f64a5ff20cc94c5d741e9e755d9c0e9a37a483b4ed6d04824272:669',
 'records/2/transform_record5': 'sha256[ok]:607d1df5bd4fae7ea8903e24931ccdfe17458aaa1babc7186b6360c1e10ae7dd:12190',
 'records/2/transform_group/conversion_from_map_projection_to_pixel': 'sha256[ok]:bb4883f34bd24a167d3d7435d028a1fc3d4fa110a5789bed67cafed8f4ce5ca8:1698',
 'records/2/transform_group/conversion_from_pixel_to_geographic': 'sha256[ok]:bb814384959d59b473723e0262579f6b55a9661e42489f0eb1f34470f8049fad:4116',
 'records/2/transform_group/conversion_from_geographic_to_pixel': 'sha256[ok]:4018667f02e70d3d09156a20087b4b21513890da09091c4aa3cb9ae94aec4829:4066',
 'records/2/transform_metadata': 'sha256[ok]:9ce29c64a26bb8023ab10695755807980e7e876085371ed1c6c81db5a85db5f0:118767',
 'records/2/transform_metadata/record5-only': 'sha256[ok]:d7d9ef6703a1b48a25e70e45ac897b94e82819a89ff55eb76f17dde7a4e61df4:12423',
 'records/3/transform_auxiliary_file': 'sha256[ok]:0f31de74ce4e9858f2cef7137f39c172846ce3f7de6dd7045db6e44732bb3cef:645',
 'records/3/transform_record5': 'sha256[ok]:85c4bc6d876481b63f02c4de9d5870ff5c5adcfc1f199a6b4c2421d87449896c:11046',
 'records/3/transform_group/conversion_from_map_projection_to_pixel': 'sha256[ok]:279f0a4bc4e45e54d9ad46eae831024f515e4208a9ef1bc6118d2c40200d200a:1532',
 'records/3/transform_group/conversion_from_pixel_to_geographic': 'sha256[ok]:d3dcefb6e95091dd7f436b90a7c2087c1731080e01ffb9f99fc091d1b85791f3:3658',
 'records/3/transform_group/conversion_from_geographic_to_pixel': 'sha256[ok]:ffc00a5974bc95e2c68fe825c0d12b72f8f184601c0803d060f7c7a908057b5d:3586',
 'records/3/transform_metadata': 'sha256[ok]:61f276fad4d392b45f32daf10db4ccabec0f0c6801f799d5438c3fb5747cea4f:113377',
 'records/3/transform_metadata/record5-only': 'sha256[ok]:65ed5058773d79a67be0eb2f0b0a626f86b12fd38a5b4886786db2010c5c3fcb:11279',
 'records/4/transform_auxiliary_file': 'sha256[ok]:ac6107d39169feb596a29f01812bab98d4a47979ac9ae69cd0443a905006b2b1:658',
 'records/4/transform_record5': 'sha256[ok]:0bb21a161ae4f7a89d16c322daded50448c223c62fef696793dfb2d9c75d712e:12658',
 'records/4/transform_group/conversion_from_map_projection_to_pixel': 'sha256[ok]:d4bec241a6c486058fb0ea0fb60da35d45b00180b61cb94871f8d9e7bc36ee1e:1772',
 'records/4/transform_group/conversion_from_pixel_to_geographic': 'sha256[ok]:8ea0f4f49809793c43eee7dc79b5644b3edc64b1ae5a3e982eef23dd6c05fd57:4290',
 'records/4/transform_group/conversion_from_geographic_to_pixel': 'sha256[ok]:8a943f0c47a8091f97dbd7bd7f9ba803456ade8945e4ac108925b438f44af775:4236',
 'records/4/transform_metadata': 'sha256[ok]:9474df8663d2bec6fe9cfb3b8b410675a1f21e6575c5565b8e4143f5e8c69f5f:120693',
 'records/4/transform_metadata/record5-only': 'sha256[ok]:e80a387e779ed4daaf80892b499c3e54f478c3ff361deec5d4ca8cfcac554c25:12891',
 'records/5/transform_auxiliary_file': 'sha256[ok]:010eb5aad0da276bd8a32720d208d7a9e0c2142b5b6ee5b6ac0ed9edaab605f7:683',
 'records/5/transform_record5': 'sha256[ok]:e75cd3edfbd03f30595d1e7bcd542c4ea342f1c1dcc0562417a2569e8ff4cc30:12676',
 'records/5/transform_group/conversion_from_map_projection_to_pixel': 'sha256[ok]:671be26234f6d03c93c287fe592b2f9845693ccf0876bf7a5d7068861b15e0ed:1780',
 'records/5/transform_group/conversion_from_pixel_to_geographic': 'sha256[ok]:1160b5224460297c5058c2ebe11304da6dbf0e8a029d92b076318c7378f364d2:4316',
 'records/5/transform_group/conversion_from_geographic_to_pixel': 'sha256[ok]:dbbf1997abf7b0d753b54e2cebae72f60cde90fe65cf112230432dd870787c99:4238',
 'records/5/transform_metadata': 'sha256[ok]:f7e0531450fe21447a094069407e98d1b492fd5bbcd0644fb73dc09058cc2f92:120885',
 'records/5/transform_metadata/record5-only': 'sha256[ok]:3ffba6f2781e1f9db0cbcb0aff9c5a2b8674966b1913ce04ee019a419a34d774:12909',
 'records/6/transform_auxiliary_file': 'sha256[ok]:d44d021c5c8b0452dcb61efed6777f5ea6fa26e6b228cfc19cfa054e8bf556bb:696',
 'records/6/transform_record5': 'sha256[ok]:3ef30f54fc9414c3a6c272b47ddc1991915ce53adeb6b3f3685132525ff8184b:12660',
 'records/6/transform_group/conversion_from_map_projection_to_pixel': 'sha256[ok]:90b7bc48c4008e0010a8fc86e35c7103e926cf28863a3a4362f039cc527934ae:1770',
 'records/6/transform_group/conversion_from_pixel_to_geographic': 'sha256[ok]:b15b465d7501b14ff1e741376f0ee72e068a5ba10fd4df5e72689ad5809f090e:4314',
 'records/6/transform_group/conversion_from_geographic_to_pixel': 'sha256[ok]:289ea1af3433fdcf6303de8967782d596574d270b63e8bca75cdc3466c0b8f9e:4250',
 'records/6/transform_metadata': 'sha256[ok]:dd904b927e1ad5bd8cf82fb3c6e445196f42e35da53eb2e2eae7222320b4581a:120922',
 'records/6/transform_metadata/record5-only': 'sha256[ok]:9051fab6c697f37d469124d581ec0e121ac6c1182cd1b461de7000570f8f7f2b:12893'}
# --- END EXPECTED ---


def test_equivalence():
    assert main(build_cases, EXPECTED, __file__) == 0


if __name__ == "__main__":
    sys.exit(main(build_cases, EXPECTED, __file__))
