"""Equivalence check for refactoring 3 (ceos_alos2.array.Array.__post_init__).

Run as a script (``python equiv.py``) or through pytest.  ``python equiv.py
--record`` prints the observations instead of comparing them; EXPECTED below
was recorded that way from the unchanged code (HEAD).
"""

import pprint
import sys

import numpy as np

from ceos_alos2 import array


def describe_exception(exc):
    return (
        f"{type(exc).__qualname__}{exc.args!r}"
        f" cause={exc.__cause__!r} context={type(exc.__context__).__name__}"
        f" suppress_context={exc.__suppress_context__}"
    )


def describe_value(value):
    return f"{type(value).__qualname__}:{value!r}"


def describe_state(arr, byte_ranges, shape):
    state = dict(vars(arr))
    known = {"fs", "url", "dtype", "type_code", "byte_ranges", "shape"}
    known |= {"records_per_chunk", "chunk_offsets"}
    return (
        f"records_per_chunk={describe_value(state.get('records_per_chunk', '<unset>'))}"
        f" chunk_offsets={state.get('chunk_offsets', '<unset>')!r}"
        f" inputs_untouched={state['byte_ranges'] is byte_ranges and state['shape'] is shape}"
        f" other_attributes={sorted(set(state) - known)}"
    )


class StrSubclass(str):
    pass


class Shape:
    """logs how the shape is queried"""

    def __init__(self, log, values):
        self.log = log
        self.values = values

    def __getitem__(self, item):
        self.log.append(f"shape[{item!r}]")
        return self.values[item]

    def __repr__(self):
        return f"Shape{self.values!r}"


REGULAR = [(16 + 20 * n, 28 + 20 * n) for n in range(8)]  # 8 records of 12 bytes
RAGGED = [(0, 10), (10, 14), (20, 50), (50, 51), (60, 100)]


def construct(records_per_chunk, byte_ranges, shape, *, with_default=False):
    kwargs = {} if with_default else {"records_per_chunk": records_per_chunk}
    try:
        arr = array.Array(
            fs="fs", url="url", byte_ranges=byte_ranges, shape=shape, dtype="uint16",
            type_code="IU2", **kwargs
        )  # fmt: skip
    except BaseException as exc:  # noqa: BLE001
        return "raised " + describe_exception(exc)
    return "state: " + describe_state(arr, byte_ranges, shape) + " | " + " ".join(
        f"{name}={_attempt(func, arr)}"
        for name, func in [
            ("chunks", lambda a: a.chunks),
            ("ndim", lambda a: a.ndim),
            ("hash", lambda a: isinstance(hash(a), int)),
        ]
    )


def _attempt(func, arr):
    try:
        return repr(func(arr))
    except Exception as exc:  # noqa: BLE001
        return type(exc).__name__


def post_init_only(records_per_chunk, byte_ranges, shape):
    """call ``__post_init__`` on a bare instance to see the state left behind on failures"""
    arr = object.__new__(array.Array)
    arr.byte_ranges = byte_ranges
    arr.shape = shape
    arr.records_per_chunk = records_per_chunk
    try:
        result = arr.__post_init__()
    except BaseException as exc:  # noqa: BLE001
        outcome = "raised " + describe_exception(exc)
    else:
        outcome = f"returned {result!r}"
    return outcome + " | state: " + describe_state(arr, byte_ranges, shape)


def observe():
    obs = {}

    specs = {
        "None": None,
        "auto": "auto",
        "AUTO": "AUTO",
        "auto-padded": " auto",
        "auto-subclass": StrSubclass("auto"),
        "12B": "12B",
        "13B": "13B",
        "18B": "18B",
        "30B": "30B",
        "0.1kB": "0.1kB",
        "1kiB": "1kiB",
        "1 MB": "1 MB",
        "100": "100",
        "0B": "0B",
        "-40B": "-40B",
        "kB": "kB",
        "empty-string": "",
        "blank-string": " ",
        "5 foos": "5 foos",
        "nan": "nan",
        "1e400": "1e400",
        "bytes": b"auto",
        "-1": -1,
        "0": 0,
        "1": 1,
        "3": 3,
        "8": 8,
        "9": 9,
        "1000": 1000,
        "-2": -2,
        "True": True,
        "False": False,
        "np.int64(3)": np.int64(3),
        "np.int64(-1)": np.int64(-1),
        "np.int64(50)": np.int64(50),
        "2.5": 2.5,
        "-1.0": -1.0,
        "inf": float("inf"),
        "nan-float": float("nan"),
        "list": [2],
        "tuple": (2, 3),
        "dict": {},
        "complex": 2j,
        "ndarray": np.array([1, 2]),
    }
    layouts = {
        "regular": (REGULAR, (8, 6)),
        "ragged": (RAGGED, (5, 4)),
        "no-records": ([], (0, 3)),
        "1d": (REGULAR[:3], (3,)),
        "scalar-shape": (REGULAR[:2], ()),
        "none-shape": (REGULAR[:2], None),
    }
    for layout_name, (byte_ranges, shape) in layouts.items():
        for spec_name, spec in specs.items():
            obs[f"init/{layout_name}/{spec_name}"] = construct(spec, byte_ranges, shape)
        obs[f"init/{layout_name}/<default>"] = construct(None, byte_ranges, shape, with_default=True)

    # invalid byte ranges are noticed before the chunk size is looked at
    broken = {
        "none": None,
        "int": 5,
        "flat": [1, 2, 3],
        "triples": [(0, 1, 2), (2, 3, 4)],
        "strings": [("a", "b")],
        "reversed": [(10, 0), (30, 10)],
        "floats": [(0.0, 1.5), (1.5, 4.0)],
        "generator": (pair for pair in REGULAR[:2]),
    }
    for broken_name, byte_ranges in broken.items():
        for spec_name in ("None", "auto", "5 foos", "2", "list"):
            spec = {"2": 2}.get(spec_name, specs.get(spec_name))
            if broken_name == "generator":
                byte_ranges = (pair for pair in REGULAR[:2])
            obs[f"broken/{broken_name}/{spec_name}"] = post_init_only(spec, byte_ranges, (2, 6))

    # the state left behind, also when normalising fails
    for spec_name in ("None", "auto", "12B", "5 foos", "empty-string", "3", "1000", "list", "-1"):
        for layout_name in ("regular", "no-records", "scalar-shape", "none-shape"):
            byte_ranges, shape = layouts[layout_name]
            key = f"state/{layout_name}/{spec_name}"
            obs[key] = post_init_only(specs[spec_name], byte_ranges, shape)

    # which collaborators are used, with what, in which order
    log = []
    originals = {
        name: getattr(array, name)
        for name in (
            "parse_bytes",
            "determine_nearest_chunksize",
            "normalize_chunksize",
            "compute_chunk_offsets",
        )
    }

    def spy(name):
        def wrapper(*args, **kwargs):
            log.append(f"{name}(*{args!r}, **{kwargs!r})")
            return originals[name](*args, **kwargs)

        return wrapper

    try:
        for name in originals:
            setattr(array, name, spy(name))
        for spec_name in ("None", "auto", "18B", "5 foos", "3", "-1", "1000", "list", "auto-subclass"):
            del log[:]
            shape = Shape(log, (5, 4))
            outcome = post_init_only(specs[spec_name], RAGGED, shape)
            obs[f"spy/{spec_name}"] = outcome + " | calls: " + " ; ".join(log)
        del log[:]
        obs["spy/broken-ranges"] = post_init_only("5 foos", None, Shape(log, (5, 4))) + (
            " | calls: " + " ; ".join(log)
        )
    finally:
        for name, func in originals.items():
            setattr(array, name, func)

    # idempotent: running the normalisation twice
    arr = array.Array(
        fs="fs", url="url", byte_ranges=REGULAR, shape=(8, 6), dtype="uint16", type_code="IU2",
        records_per_chunk="30B",
    )  # fmt: skip
    first = describe_state(arr, REGULAR, arr.shape)
    arr.__post_init__()
    obs["twice/30B"] = f"{first} -> {describe_state(arr, REGULAR, arr.shape)}"

    # equality / replace go through __post_init__ as well
    import dataclasses

    replaced = dataclasses.replace(arr, records_per_chunk=None)
    obs["replace/None"] = describe_state(replaced, REGULAR, arr.shape)
    obs["replace/eq"] = repr((arr == replaced, arr == dataclasses.replace(arr)))
    obs["repr"] = repr(arr)
    obs["fields"] = [f.name for f in dataclasses.fields(array.Array)]
    return obs


EXPECTED = {'broken/flat/2': "raised TypeError('cannot unpack non-iterable int object',) cause=None context=NoneType "
                  "suppress_context=False | state: records_per_chunk=int:2 chunk_offsets='<unset>' "
                  'inputs_untouched=True other_attributes=[]',
 'broken/flat/5 foos': "raised TypeError('cannot unpack non-iterable int object',) cause=None "
                       "context=NoneType suppress_context=False | state: records_per_chunk=str:'5 foos' "
                       "chunk_offsets='<unset>' inputs_untouched=True other_attributes=[]",
 'broken/flat/None': "raised TypeError('cannot unpack non-iterable int object',) cause=None context=NoneType "
                     'suppress_context=False | state: records_per_chunk=NoneType:None '
                     "chunk_offsets='<unset>' inputs_untouched=True other_attributes=[]",
 'broken/flat/auto': "raised TypeError('cannot unpack non-iterable int object',) cause=None context=NoneType "
                     "suppress_context=False | state: records_per_chunk=str:'auto' chunk_offsets='<unset>' "
                     'inputs_untouched=True other_attributes=[]',
 'broken/flat/list': "raised TypeError('cannot unpack non-iterable int object',) cause=None context=NoneType "
                     "suppress_context=False | state: records_per_chunk=list:[2] chunk_offsets='<unset>' "
                     'inputs_untouched=True other_attributes=[]',
 'broken/floats/2': "returned None | state: records_per_chunk=int:2 chunk_offsets={0: {'offset': 0.0, "
                    "'size': 4.0}} inputs_untouched=True other_attributes=[]",
 'broken/floats/5 foos': 'raised ValueError("Could not interpret \'foos\' as a byte unit",) '
                         "cause=KeyError('foos') context=KeyError suppress_context=True | state: "
                         "records_per_chunk=str:'5 foos' chunk_offsets='<unset>' inputs_untouched=True "
                         'other_attributes=[]',
 'broken/floats/None': "returned None | state: records_per_chunk=int:1024 chunk_offsets={0: {'offset': 0.0, "
                       "'size': 4.0}} inputs_untouched=True other_attributes=[]",
 'broken/floats/auto': 'returned None | state: records_per_chunk=int64:np.int64(2) chunk_offsets={0: '
                       "{'offset': 0.0, 'size': 4.0}} inputs_untouched=True other_attributes=[]",
 'broken/floats/list': 'raised TypeError("\'>\' not supported between instances of \'list\' and \'int\'",) '
                       'cause=None context=NoneType suppress_context=False | state: '
                       "records_per_chunk=list:[2] chunk_offsets='<unset>' inputs_untouched=True "
                       'other_attributes=[]',
 'broken/generator/2': 'returned None | state: records_per_chunk=int:2 chunk_offsets={} '
                       'inputs_untouched=True other_attributes=[]',
 'broken/generator/5 foos': 'raised ValueError("Could not interpret \'foos\' as a byte unit",) '
                            "cause=KeyError('foos') context=KeyError suppress_context=True | state: "
                            "records_per_chunk=str:'5 foos' chunk_offsets='<unset>' inputs_untouched=True "
                            'other_attributes=[]',
 'broken/generator/None': 'returned None | state: records_per_chunk=int:1024 chunk_offsets={} '
                          'inputs_untouched=True other_attributes=[]',
 'broken/generator/auto': 'returned None | state: records_per_chunk=int64:np.int64(2) chunk_offsets={} '
                          'inputs_untouched=True other_attributes=[]',
 'broken/generator/list': 'raised TypeError("\'>\' not supported between instances of \'list\' and '
                          '\'int\'",) cause=None context=NoneType suppress_context=False | state: '
                          "records_per_chunk=list:[2] chunk_offsets='<unset>' inputs_untouched=True "
                          'other_attributes=[]',
 'broken/int/2': 'raised TypeError("\'int\' object is not iterable",) cause=None context=NoneType '
                 "suppress_context=False | state: records_per_chunk=int:2 chunk_offsets='<unset>' "
                 'inputs_untouched=True other_attributes=[]',
 'broken/int/5 foos': 'raised TypeError("\'int\' object is not iterable",) cause=None context=NoneType '
                      "suppress_context=False | state: records_per_chunk=str:'5 foos' "
                      "chunk_offsets='<unset>' inputs_untouched=True other_attributes=[]",
 'broken/int/None': 'raised TypeError("\'int\' object is not iterable",) cause=None context=NoneType '
                    "suppress_context=False | state: records_per_chunk=NoneType:None chunk_offsets='<unset>' "
                    'inputs_untouched=True other_attributes=[]',
 'broken/int/auto': 'raised TypeError("\'int\' object is not iterable",) cause=None context=NoneType '
                    "suppress_context=False | state: records_per_chunk=str:'auto' chunk_offsets='<unset>' "
                    'inputs_untouched=True other_attributes=[]',
 'broken/int/list': 'raised TypeError("\'int\' object is not iterable",) cause=None context=NoneType '
                    "suppress_context=False | state: records_per_chunk=list:[2] chunk_offsets='<unset>' "
                    'inputs_untouched=True other_attributes=[]',
 'broken/none/2': 'raised TypeError("\'NoneType\' object is not iterable",) cause=None context=NoneType '
                  "suppress_context=False | state: records_per_chunk=int:2 chunk_offsets='<unset>' "
                  'inputs_untouched=True other_attributes=[]',
 'broken/none/5 foos': 'raised TypeError("\'NoneType\' object is not iterable",) cause=None context=NoneType '
                       "suppress_context=False | state: records_per_chunk=str:'5 foos' "
                       "chunk_offsets='<unset>' inputs_untouched=True other_attributes=[]",
 'broken/none/None': 'raised TypeError("\'NoneType\' object is not iterable",) cause=None context=NoneType '
                     'suppress_context=False | state: records_per_chunk=NoneType:None '
                     "chunk_offsets='<unset>' inputs_untouched=True other_attributes=[]",
 'broken/none/auto': 'raised TypeError("\'NoneType\' object is not iterable",) cause=None context=NoneType '
                     "suppress_context=False | state: records_per_chunk=str:'auto' chunk_offsets='<unset>' "
                     'inputs_untouched=True other_attributes=[]',
 'broken/none/list': 'raised TypeError("\'NoneType\' object is not iterable",) cause=None context=NoneType '
                     "suppress_context=False | state: records_per_chunk=list:[2] chunk_offsets='<unset>' "
                     'inputs_untouched=True other_attributes=[]',
 'broken/reversed/2': "returned None | state: records_per_chunk=int:2 chunk_offsets={0: {'offset': 10, "
                      "'size': 0}} inputs_untouched=True other_attributes=[]",
 'broken/reversed/5 foos': 'raised ValueError("Could not interpret \'foos\' as a byte unit",) '
                           "cause=KeyError('foos') context=KeyError suppress_context=True | state: "
                           "records_per_chunk=str:'5 foos' chunk_offsets='<unset>' inputs_untouched=True "
                           'other_attributes=[]',
 'broken/reversed/None': "returned None | state: records_per_chunk=int:1024 chunk_offsets={0: {'offset': 10, "
                         "'size': 0}} inputs_untouched=True other_attributes=[]",
 'broken/reversed/auto': 'returned None | state: records_per_chunk=int64:np.int64(1) chunk_offsets={0: '
                         "{'offset': 10, 'size': -10}, 1: {'offset': 30, 'size': -20}} inputs_untouched=True "
                         'other_attributes=[]',
 'broken/reversed/list': 'raised TypeError("\'>\' not supported between instances of \'list\' and \'int\'",) '
                         'cause=None context=NoneType suppress_context=False | state: '
                         "records_per_chunk=list:[2] chunk_offsets='<unset>' inputs_untouched=True "
                         'other_attributes=[]',
 'broken/strings/2': 'raised TypeError("unsupported operand type(s) for -: \'str\' and \'str\'",) cause=None '
                     'context=NoneType suppress_context=False | state: records_per_chunk=int:2 '
                     "chunk_offsets='<unset>' inputs_untouched=True other_attributes=[]",
 'broken/strings/5 foos': 'raised TypeError("unsupported operand type(s) for -: \'str\' and \'str\'",) '
                          'cause=None context=NoneType suppress_context=False | state: '
                          "records_per_chunk=str:'5 foos' chunk_offsets='<unset>' inputs_untouched=True "
                          'other_attributes=[]',
 'broken/strings/None': 'raised TypeError("unsupported operand type(s) for -: \'str\' and \'str\'",) '
                        'cause=None context=NoneType suppress_context=False | state: '
                        "records_per_chunk=NoneType:None chunk_offsets='<unset>' inputs_untouched=True "
                        'other_attributes=[]',
 'broken/strings/auto': 'raised TypeError("unsupported operand type(s) for -: \'str\' and \'str\'",) '
                        'cause=None context=NoneType suppress_context=False | state: '
                        "records_per_chunk=str:'auto' chunk_offsets='<unset>' inputs_untouched=True "
                        'other_attributes=[]',
 'broken/strings/list': 'raised TypeError("unsupported operand type(s) for -: \'str\' and \'str\'",) '
                        'cause=None context=NoneType suppress_context=False | state: '
                        "records_per_chunk=list:[2] chunk_offsets='<unset>' inputs_untouched=True "
                        'other_attributes=[]',
 'broken/triples/2': "raised ValueError('too many values to unpack (expected 2)',) cause=None "
                     'context=NoneType suppress_context=False | state: records_per_chunk=int:2 '
                     "chunk_offsets='<unset>' inputs_untouched=True other_attributes=[]",
 'broken/triples/5 foos': "raised ValueError('too many values to unpack (expected 2)',) cause=None "
                          "context=NoneType suppress_context=False | state: records_per_chunk=str:'5 foos' "
                          "chunk_offsets='<unset>' inputs_untouched=True other_attributes=[]",
 'broken/triples/None': "raised ValueError('too many values to unpack (expected 2)',) cause=None "
                        'context=NoneType suppress_context=False | state: records_per_chunk=NoneType:None '
                        "chunk_offsets='<unset>' inputs_untouched=True other_attributes=[]",
 'broken/triples/auto': "raised ValueError('too many values to unpack (expected 2)',) cause=None "
                        "context=NoneType suppress_context=False | state: records_per_chunk=str:'auto' "
                        "chunk_offsets='<unset>' inputs_untouched=True other_attributes=[]",
 'broken/triples/list': "raised ValueError('too many values to unpack (expected 2)',) cause=None "
                        'context=NoneType suppress_context=False | state: records_per_chunk=list:[2] '
                        "chunk_offsets='<unset>' inputs_untouched=True other_attributes=[]",
 'fields': ['fs', 'url', 'byte_ranges', 'shape', 'dtype', 'type_code', 'records_per_chunk', 'chunk_offsets'],
 'init/1d/-1': "state: records_per_chunk=int:3 chunk_offsets={0: {'offset': 16, 'size': 52}} "
               'inputs_untouched=True other_attributes=[] | chunks=(3,) ndim=1 hash=TypeError',
 'init/1d/-1.0': "state: records_per_chunk=int:3 chunk_offsets={0: {'offset': 16, 'size': 52}} "
                 'inputs_untouched=True other_attributes=[] | chunks=(3,) ndim=1 hash=TypeError',
 'init/1d/-2': 'state: records_per_chunk=int:-2 chunk_offsets={} inputs_untouched=True other_attributes=[] | '
               'chunks=(-2,) ndim=1 hash=TypeError',
 'init/1d/-40B': "state: records_per_chunk=int64:np.int64(1) chunk_offsets={0: {'offset': 16, 'size': 12}, "
                 "1: {'offset': 36, 'size': 12}, 2: {'offset': 56, 'size': 12}} inputs_untouched=True "
                 'other_attributes=[] | chunks=(np.int64(1),) ndim=1 hash=TypeError',
 'init/1d/0': 'state: records_per_chunk=int:0 chunk_offsets={} inputs_untouched=True other_attributes=[] | '
              'chunks=(0,) ndim=1 hash=TypeError',
 'init/1d/0.1kB': "state: records_per_chunk=int64:np.int64(3) chunk_offsets={0: {'offset': 16, 'size': 52}} "
                  'inputs_untouched=True other_attributes=[] | chunks=(np.int64(3),) ndim=1 hash=TypeError',
 'init/1d/0B': "state: records_per_chunk=int64:np.int64(1) chunk_offsets={0: {'offset': 16, 'size': 12}, 1: "
               "{'offset': 36, 'size': 12}, 2: {'offset': 56, 'size': 12}} inputs_untouched=True "
               'other_attributes=[] | chunks=(np.int64(1),) ndim=1 hash=TypeError',
 'init/1d/1': "state: records_per_chunk=int:1 chunk_offsets={0: {'offset': 16, 'size': 12}, 1: {'offset': "
              "36, 'size': 12}, 2: {'offset': 56, 'size': 12}} inputs_untouched=True other_attributes=[] | "
              'chunks=(1,) ndim=1 hash=TypeError',
 'init/1d/1 MB': "state: records_per_chunk=int64:np.int64(3) chunk_offsets={0: {'offset': 16, 'size': 52}} "
                 'inputs_untouched=True other_attributes=[] | chunks=(np.int64(3),) ndim=1 hash=TypeError',
 'init/1d/100': "state: records_per_chunk=int64:np.int64(3) chunk_offsets={0: {'offset': 16, 'size': 52}} "
                'inputs_untouched=True other_attributes=[] | chunks=(np.int64(3),) ndim=1 hash=TypeError',
 'init/1d/1000': "state: records_per_chunk=int:3 chunk_offsets={0: {'offset': 16, 'size': 52}} "
                 'inputs_untouched=True other_attributes=[] | chunks=(3,) ndim=1 hash=TypeError',
 'init/1d/12B': "state: records_per_chunk=int64:np.int64(1) chunk_offsets={0: {'offset': 16, 'size': 12}, 1: "
                "{'offset': 36, 'size': 12}, 2: {'offset': 56, 'size': 12}} inputs_untouched=True "
                'other_attributes=[] | chunks=(np.int64(1),) ndim=1 hash=TypeError',
 'init/1d/13B': "state: records_per_chunk=int64:np.int64(1) chunk_offsets={0: {'offset': 16, 'size': 12}, 1: "
                "{'offset': 36, 'size': 12}, 2: {'offset': 56, 'size': 12}} inputs_untouched=True "
                'other_attributes=[] | chunks=(np.int64(1),) ndim=1 hash=TypeError',
 'init/1d/18B': "state: records_per_chunk=int64:np.int64(1) chunk_offsets={0: {'offset': 16, 'size': 12}, 1: "
                "{'offset': 36, 'size': 12}, 2: {'offset': 56, 'size': 12}} inputs_untouched=True "
                'other_attributes=[] | chunks=(np.int64(1),) ndim=1 hash=TypeError',
 'init/1d/1e400': "raised OverflowError('cannot convert float infinity to integer',) cause=None "
                  'context=NoneType suppress_context=False',
 'init/1d/1kiB': "state: records_per_chunk=int64:np.int64(3) chunk_offsets={0: {'offset': 16, 'size': 52}} "
                 'inputs_untouched=True other_attributes=[] | chunks=(np.int64(3),) ndim=1 hash=TypeError',
 'init/1d/2.5': 'raised TypeError("can\'t multiply sequence by non-int of type \'float\'",) cause=None '
                'context=NoneType suppress_context=False',
 'init/1d/3': "state: records_per_chunk=int:3 chunk_offsets={0: {'offset': 16, 'size': 52}} "
              'inputs_untouched=True other_attributes=[] | chunks=(3,) ndim=1 hash=TypeError',
 'init/1d/30B': "state: records_per_chunk=int64:np.int64(2) chunk_offsets={0: {'offset': 16, 'size': 32}, 1: "
                "{'offset': 56, 'size': 12}} inputs_untouched=True other_attributes=[] | "
                'chunks=(np.int64(2),) ndim=1 hash=TypeError',
 'init/1d/5 foos': 'raised ValueError("Could not interpret \'foos\' as a byte unit",) '
                   "cause=KeyError('foos') context=KeyError suppress_context=True",
 'init/1d/8': "state: records_per_chunk=int:3 chunk_offsets={0: {'offset': 16, 'size': 52}} "
              'inputs_untouched=True other_attributes=[] | chunks=(3,) ndim=1 hash=TypeError',
 'init/1d/9': "state: records_per_chunk=int:3 chunk_offsets={0: {'offset': 16, 'size': 52}} "
              'inputs_untouched=True other_attributes=[] | chunks=(3,) ndim=1 hash=TypeError',
 'init/1d/<default>': "state: records_per_chunk=int:1024 chunk_offsets={0: {'offset': 16, 'size': 52}} "
                      'inputs_untouched=True other_attributes=[] | chunks=(1024,) ndim=1 hash=TypeError',
 'init/1d/AUTO': 'raised ValueError("Could not interpret \'AUTO\' as a byte unit",) cause=KeyError(\'auto\') '
                 'context=KeyError suppress_context=True',
 'init/1d/False': 'state: records_per_chunk=bool:False chunk_offsets={} inputs_untouched=True '
                  'other_attributes=[] | chunks=(False,) ndim=1 hash=TypeError',
 'init/1d/None': "state: records_per_chunk=int:1024 chunk_offsets={0: {'offset': 16, 'size': 52}} "
                 'inputs_untouched=True other_attributes=[] | chunks=(1024,) ndim=1 hash=TypeError',
 'init/1d/True': "state: records_per_chunk=bool:True chunk_offsets={0: {'offset': 16, 'size': 12}, 1: "
                 "{'offset': 36, 'size': 12}, 2: {'offset': 56, 'size': 12}} inputs_untouched=True "
                 'other_attributes=[] | chunks=(True,) ndim=1 hash=TypeError',
 'init/1d/auto': "state: records_per_chunk=int64:np.int64(3) chunk_offsets={0: {'offset': 16, 'size': 52}} "
                 'inputs_untouched=True other_attributes=[] | chunks=(np.int64(3),) ndim=1 hash=TypeError',
 'init/1d/auto-padded': 'raised ValueError("Could not interpret \'auto\' as a byte unit",) '
                        "cause=KeyError('auto') context=KeyError suppress_context=True",
 'init/1d/auto-subclass': "state: records_per_chunk=int64:np.int64(3) chunk_offsets={0: {'offset': 16, "
                          "'size': 52}} inputs_untouched=True other_attributes=[] | chunks=(np.int64(3),) "
                          'ndim=1 hash=TypeError',
 'init/1d/blank-string': "state: records_per_chunk=int64:np.int64(1) chunk_offsets={0: {'offset': 16, "
                         "'size': 12}, 1: {'offset': 36, 'size': 12}, 2: {'offset': 56, 'size': 12}} "
                         'inputs_untouched=True other_attributes=[] | chunks=(np.int64(1),) ndim=1 '
                         'hash=TypeError',
 'init/1d/bytes': 'raised TypeError("\'>\' not supported between instances of \'bytes\' and \'int\'",) '
                  'cause=None context=NoneType suppress_context=False',
 'init/1d/complex': 'raised TypeError("\'>\' not supported between instances of \'complex\' and \'int\'",) '
                    'cause=None context=NoneType suppress_context=False',
 'init/1d/dict': 'raised TypeError("\'>\' not supported between instances of \'dict\' and \'int\'",) '
                 'cause=None context=NoneType suppress_context=False',
 'init/1d/empty-string': "state: records_per_chunk=int64:np.int64(1) chunk_offsets={0: {'offset': 16, "
                         "'size': 12}, 1: {'offset': 36, 'size': 12}, 2: {'offset': 56, 'size': 12}} "
                         'inputs_untouched=True other_attributes=[] | chunks=(np.int64(1),) ndim=1 '
                         'hash=TypeError',
 'init/1d/inf': "state: records_per_chunk=int:3 chunk_offsets={0: {'offset': 16, 'size': 52}} "
                'inputs_untouched=True other_attributes=[] | chunks=(3,) ndim=1 hash=TypeError',
 'init/1d/kB': "state: records_per_chunk=int64:np.int64(3) chunk_offsets={0: {'offset': 16, 'size': 52}} "
               'inputs_untouched=True other_attributes=[] | chunks=(np.int64(3),) ndim=1 hash=TypeError',
 'init/1d/list': 'raised TypeError("\'>\' not supported between instances of \'list\' and \'int\'",) '
                 'cause=None context=NoneType suppress_context=False',
 'init/1d/nan': 'raised ValueError("Could not interpret \'nan\' as a byte unit",) cause=KeyError(\'nan\') '
                'context=KeyError suppress_context=True',
 'init/1d/nan-float': 'raised TypeError("can\'t multiply sequence by non-int of type \'float\'",) cause=None '
                      'context=NoneType suppress_context=False',
 'init/1d/ndarray': "raised ValueError('The truth value of an array with more than one element is ambiguous. "
                    "Use a.any() or a.all()',) cause=None context=NoneType suppress_context=False",
 'init/1d/np.int64(-1)': "state: records_per_chunk=int:3 chunk_offsets={0: {'offset': 16, 'size': 52}} "
                         'inputs_untouched=True other_attributes=[] | chunks=(3,) ndim=1 hash=TypeError',
 'init/1d/np.int64(3)': "state: records_per_chunk=int64:np.int64(3) chunk_offsets={0: {'offset': 16, 'size': "
                        '52}} inputs_untouched=True other_attributes=[] | chunks=(np.int64(3),) ndim=1 '
                        'hash=TypeError',
 'init/1d/np.int64(50)': "state: records_per_chunk=int:3 chunk_offsets={0: {'offset': 16, 'size': 52}} "
                         'inputs_untouched=True other_attributes=[] | chunks=(3,) ndim=1 hash=TypeError',
 'init/1d/tuple': 'raised TypeError("\'>\' not supported between instances of \'tuple\' and \'int\'",) '
                  'cause=None context=NoneType suppress_context=False',
 'init/no-records/-1': 'state: records_per_chunk=int:0 chunk_offsets={} inputs_untouched=True '
                       'other_attributes=[] | chunks=(0, 3) ndim=2 hash=TypeError',
 'init/no-records/-1.0': 'state: records_per_chunk=int:0 chunk_offsets={} inputs_untouched=True '
                         'other_attributes=[] | chunks=(0, 3) ndim=2 hash=TypeError',
 'init/no-records/-2': 'state: records_per_chunk=int:-2 chunk_offsets={} inputs_untouched=True '
                       'other_attributes=[] | chunks=(-2, 3) ndim=2 hash=TypeError',
 'init/no-records/-40B': "raised ValueError('attempt to get argmin of an empty sequence',) cause=None "
                         'context=NoneType suppress_context=False',
 'init/no-records/0': 'state: records_per_chunk=int:0 chunk_offsets={} inputs_untouched=True '
                      'other_attributes=[] | chunks=(0, 3) ndim=2 hash=TypeError',
 'init/no-records/0.1kB': "raised ValueError('attempt to get argmin of an empty sequence',) cause=None "
                          'context=NoneType suppress_context=False',
 'init/no-records/0B': "raised ValueError('attempt to get argmin of an empty sequence',) cause=None "
                       'context=NoneType suppress_context=False',
 'init/no-records/1': 'state: records_per_chunk=int:0 chunk_offsets={} inputs_untouched=True '
                      'other_attributes=[] | chunks=(0, 3) ndim=2 hash=TypeError',
 'init/no-records/1 MB': "raised ValueError('attempt to get argmin of an empty sequence',) cause=None "
                         'context=NoneType suppress_context=False',
 'init/no-records/100': "raised ValueError('attempt to get argmin of an empty sequence',) cause=None "
                        'context=NoneType suppress_context=False',
 'init/no-records/1000': 'state: records_per_chunk=int:0 chunk_offsets={} inputs_untouched=True '
                         'other_attributes=[] | chunks=(0, 3) ndim=2 hash=TypeError',
 'init/no-records/12B': "raised ValueError('attempt to get argmin of an empty sequence',) cause=None "
                        'context=NoneType suppress_context=False',
 'init/no-records/13B': "raised ValueError('attempt to get argmin of an empty sequence',) cause=None "
                        'context=NoneType suppress_context=False',
 'init/no-records/18B': "raised ValueError('attempt to get argmin of an empty sequence',) cause=None "
                        'context=NoneType suppress_context=False',
 'init/no-records/1e400': "raised OverflowError('cannot convert float infinity to integer',) cause=None "
                          'context=NoneType suppress_context=False',
 'init/no-records/1kiB': "raised ValueError('attempt to get argmin of an empty sequence',) cause=None "
                         'context=NoneType suppress_context=False',
 'init/no-records/2.5': 'state: records_per_chunk=int:0 chunk_offsets={} inputs_untouched=True '
                        'other_attributes=[] | chunks=(0, 3) ndim=2 hash=TypeError',
 'init/no-records/3': 'state: records_per_chunk=int:0 chunk_offsets={} inputs_untouched=True '
                      'other_attributes=[] | chunks=(0, 3) ndim=2 hash=TypeError',
 'init/no-records/30B': "raised ValueError('attempt to get argmin of an empty sequence',) cause=None "
                        'context=NoneType suppress_context=False',
 'init/no-records/5 foos': 'raised ValueError("Could not interpret \'foos\' as a byte unit",) '
                           "cause=KeyError('foos') context=KeyError suppress_context=True",
 'init/no-records/8': 'state: records_per_chunk=int:0 chunk_offsets={} inputs_untouched=True '
                      'other_attributes=[] | chunks=(0, 3) ndim=2 hash=TypeError',
 'init/no-records/9': 'state: records_per_chunk=int:0 chunk_offsets={} inputs_untouched=True '
                      'other_attributes=[] | chunks=(0, 3) ndim=2 hash=TypeError',
 'init/no-records/<default>': 'state: records_per_chunk=int:1024 chunk_offsets={} inputs_untouched=True '
                              'other_attributes=[] | chunks=(1024, 3) ndim=2 hash=TypeError',
 'init/no-records/AUTO': 'raised ValueError("Could not interpret \'AUTO\' as a byte unit",) '
                         "cause=KeyError('auto') context=KeyError suppress_context=True",
 'init/no-records/False': 'state: records_per_chunk=bool:False chunk_offsets={} inputs_untouched=True '
                          'other_attributes=[] | chunks=(False, 3) ndim=2 hash=TypeError',
 'init/no-records/None': 'state: records_per_chunk=int:1024 chunk_offsets={} inputs_untouched=True '
                         'other_attributes=[] | chunks=(1024, 3) ndim=2 hash=TypeError',
 'init/no-records/True': 'state: records_per_chunk=int:0 chunk_offsets={} inputs_untouched=True '
                         'other_attributes=[] | chunks=(0, 3) ndim=2 hash=TypeError',
 'init/no-records/auto': "raised ValueError('attempt to get argmin of an empty sequence',) cause=None "
                         'context=NoneType suppress_context=False',
 'init/no-records/auto-padded': 'raised ValueError("Could not interpret \'auto\' as a byte unit",) '
                                "cause=KeyError('auto') context=KeyError suppress_context=True",
 'init/no-records/auto-subclass': "raised ValueError('attempt to get argmin of an empty sequence',) "
                                  'cause=None context=NoneType suppress_context=False',
 'init/no-records/blank-string': "raised ValueError('attempt to get argmin of an empty sequence',) "
                                 'cause=None context=NoneType suppress_context=False',
 'init/no-records/bytes': 'raised TypeError("\'>\' not supported between instances of \'bytes\' and '
                          '\'int\'",) cause=None context=NoneType suppress_context=False',
 'init/no-records/complex': 'raised TypeError("\'>\' not supported between instances of \'complex\' and '
                            '\'int\'",) cause=None context=NoneType suppress_context=False',
 'init/no-records/dict': 'raised TypeError("\'>\' not supported between instances of \'dict\' and \'int\'",) '
                         'cause=None context=NoneType suppress_context=False',
 'init/no-records/empty-string': "raised ValueError('attempt to get argmin of an empty sequence',) "
                                 'cause=None context=NoneType suppress_context=False',
 'init/no-records/inf': 'state: records_per_chunk=int:0 chunk_offsets={} inputs_untouched=True '
                        'other_attributes=[] | chunks=(0, 3) ndim=2 hash=TypeError',
 'init/no-records/kB': "raised ValueError('attempt to get argmin of an empty sequence',) cause=None "
                       'context=NoneType suppress_context=False',
 'init/no-records/list': 'raised TypeError("\'>\' not supported between instances of \'list\' and \'int\'",) '
                         'cause=None context=NoneType suppress_context=False',
 'init/no-records/nan': 'raised ValueError("Could not interpret \'nan\' as a byte unit",) '
                        "cause=KeyError('nan') context=KeyError suppress_context=True",
 'init/no-records/nan-float': 'raised TypeError("can\'t multiply sequence by non-int of type \'float\'",) '
                              'cause=None context=NoneType suppress_context=False',
 'init/no-records/ndarray': "raised ValueError('The truth value of an array with more than one element is "
                            "ambiguous. Use a.any() or a.all()',) cause=None context=NoneType "
                            'suppress_context=False',
 'init/no-records/np.int64(-1)': 'state: records_per_chunk=int:0 chunk_offsets={} inputs_untouched=True '
                                 'other_attributes=[] | chunks=(0, 3) ndim=2 hash=TypeError',
 'init/no-records/np.int64(3)': 'state: records_per_chunk=int:0 chunk_offsets={} inputs_untouched=True '
                                'other_attributes=[] | chunks=(0, 3) ndim=2 hash=TypeError',
 'init/no-records/np.int64(50)': 'state: records_per_chunk=int:0 chunk_offsets={} inputs_untouched=True '
                                 'other_attributes=[] | chunks=(0, 3) ndim=2 hash=TypeError',
 'init/no-records/tuple': 'raised TypeError("\'>\' not supported between instances of \'tuple\' and '
                          '\'int\'",) cause=None context=NoneType suppress_context=False',
 'init/none-shape/-1': 'raised TypeError("\'NoneType\' object is not subscriptable",) cause=None '
                       'context=NoneType suppress_context=False',
 'init/none-shape/-1.0': 'raised TypeError("\'NoneType\' object is not subscriptable",) cause=None '
                         'context=NoneType suppress_context=False',
 'init/none-shape/-2': 'raised TypeError("\'NoneType\' object is not subscriptable",) cause=None '
                       'context=NoneType suppress_context=False',
 'init/none-shape/-40B': "state: records_per_chunk=int64:np.int64(1) chunk_offsets={0: {'offset': 16, "
                         "'size': 12}, 1: {'offset': 36, 'size': 12}} inputs_untouched=True "
                         'other_attributes=[] | chunks=TypeError ndim=TypeError hash=TypeError',
 'init/none-shape/0': 'raised TypeError("\'NoneType\' object is not subscriptable",) cause=None '
                      'context=NoneType suppress_context=False',
 'init/none-shape/0.1kB': "state: records_per_chunk=int64:np.int64(2) chunk_offsets={0: {'offset': 16, "
                          "'size': 32}} inputs_untouched=True other_attributes=[] | chunks=TypeError "
                          'ndim=TypeError hash=TypeError',
 'init/none-shape/0B': "state: records_per_chunk=int64:np.int64(1) chunk_offsets={0: {'offset': 16, 'size': "
                       "12}, 1: {'offset': 36, 'size': 12}} inputs_untouched=True other_attributes=[] | "
                       'chunks=TypeError ndim=TypeError hash=TypeError',
 'init/none-shape/1': 'raised TypeError("\'NoneType\' object is not subscriptable",) cause=None '
                      'context=NoneType suppress_context=False',
 'init/none-shape/1 MB': "state: records_per_chunk=int64:np.int64(2) chunk_offsets={0: {'offset': 16, "
                         "'size': 32}} inputs_untouched=True other_attributes=[] | chunks=TypeError "
                         'ndim=TypeError hash=TypeError',
 'init/none-shape/100': "state: records_per_chunk=int64:np.int64(2) chunk_offsets={0: {'offset': 16, 'size': "
                        '32}} inputs_untouched=True other_attributes=[] | chunks=TypeError ndim=TypeError '
                        'hash=TypeError',
 'init/none-shape/1000': 'raised TypeError("\'NoneType\' object is not subscriptable",) cause=None '
                         'context=NoneType suppress_context=False',
 'init/none-shape/12B': "state: records_per_chunk=int64:np.int64(1) chunk_offsets={0: {'offset': 16, 'size': "
                        "12}, 1: {'offset': 36, 'size': 12}} inputs_untouched=True other_attributes=[] | "
                        'chunks=TypeError ndim=TypeError hash=TypeError',
 'init/none-shape/13B': "state: records_per_chunk=int64:np.int64(1) chunk_offsets={0: {'offset': 16, 'size': "
                        "12}, 1: {'offset': 36, 'size': 12}} inputs_untouched=True other_attributes=[] | "
                        'chunks=TypeError ndim=TypeError hash=TypeError',
 'init/none-shape/18B': "state: records_per_chunk=int64:np.int64(1) chunk_offsets={0: {'offset': 16, 'size': "
                        "12}, 1: {'offset': 36, 'size': 12}} inputs_untouched=True other_attributes=[] | "
                        'chunks=TypeError ndim=TypeError hash=TypeError',
 'init/none-shape/1e400': "raised OverflowError('cannot convert float infinity to integer',) cause=None "
                          'context=NoneType suppress_context=False',
 'init/none-shape/1kiB': "state: records_per_chunk=int64:np.int64(2) chunk_offsets={0: {'offset': 16, "
                         "'size': 32}} inputs_untouched=True other_attributes=[] | chunks=TypeError "
                         'ndim=TypeError hash=TypeError',
 'init/none-shape/2.5': 'raised TypeError("\'NoneType\' object is not subscriptable",) cause=None '
                        'context=NoneType suppress_context=False',
 'init/none-shape/3': 'raised TypeError("\'NoneType\' object is not subscriptable",) cause=None '
                      'context=NoneType suppress_context=False',
 'init/none-shape/30B': "state: records_per_chunk=int64:np.int64(2) chunk_offsets={0: {'offset': 16, 'size': "
                        '32}} inputs_untouched=True other_attributes=[] | chunks=TypeError ndim=TypeError '
                        'hash=TypeError',
 'init/none-shape/5 foos': 'raised ValueError("Could not interpret \'foos\' as a byte unit",) '
                           "cause=KeyError('foos') context=KeyError suppress_context=True",
 'init/none-shape/8': 'raised TypeError("\'NoneType\' object is not subscriptable",) cause=None '
                      'context=NoneType suppress_context=False',
 'init/none-shape/9': 'raised TypeError("\'NoneType\' object is not subscriptable",) cause=None '
                      'context=NoneType suppress_context=False',
 'init/none-shape/<default>': "state: records_per_chunk=int:1024 chunk_offsets={0: {'offset': 16, 'size': "
                              '32}} inputs_untouched=True other_attributes=[] | chunks=TypeError '
                              'ndim=TypeError hash=TypeError',
 'init/none-shape/AUTO': 'raised ValueError("Could not interpret \'AUTO\' as a byte unit",) '
                         "cause=KeyError('auto') context=KeyError suppress_context=True",
 'init/none-shape/False': 'raised TypeError("\'NoneType\' object is not subscriptable",) cause=None '
                          'context=NoneType suppress_context=False',
 'init/none-shape/None': "state: records_per_chunk=int:1024 chunk_offsets={0: {'offset': 16, 'size': 32}} "
                         'inputs_untouched=True other_attributes=[] | chunks=TypeError ndim=TypeError '
                         'hash=TypeError',
 'init/none-shape/True': 'raised TypeError("\'NoneType\' object is not subscriptable",) cause=None '
                         'context=NoneType suppress_context=False',
 'init/none-shape/auto': "state: records_per_chunk=int64:np.int64(2) chunk_offsets={0: {'offset': 16, "
                         "'size': 32}} inputs_untouched=True other_attributes=[] | chunks=TypeError "
                         'ndim=TypeError hash=TypeError',
 'init/none-shape/auto-padded': 'raised ValueError("Could not interpret \'auto\' as a byte unit",) '
                                "cause=KeyError('auto') context=KeyError suppress_context=True",
 'init/none-shape/auto-subclass': "state: records_per_chunk=int64:np.int64(2) chunk_offsets={0: {'offset': "
                                  "16, 'size': 32}} inputs_untouched=True other_attributes=[] | "
                                  'chunks=TypeError ndim=TypeError hash=TypeError',
 'init/none-shape/blank-string': "state: records_per_chunk=int64:np.int64(1) chunk_offsets={0: {'offset': "
                                 "16, 'size': 12}, 1: {'offset': 36, 'size': 12}} inputs_untouched=True "
                                 'other_attributes=[] | chunks=TypeError ndim=TypeError hash=TypeError',
 'init/none-shape/bytes': 'raised TypeError("\'NoneType\' object is not subscriptable",) cause=None '
                          'context=NoneType suppress_context=False',
 'init/none-shape/complex': 'raised TypeError("\'NoneType\' object is not subscriptable",) cause=None '
                            'context=NoneType suppress_context=False',
 'init/none-shape/dict': 'raised TypeError("\'NoneType\' object is not subscriptable",) cause=None '
                         'context=NoneType suppress_context=False',
 'init/none-shape/empty-string': "state: records_per_chunk=int64:np.int64(1) chunk_offsets={0: {'offset': "
                                 "16, 'size': 12}, 1: {'offset': 36, 'size': 12}} inputs_untouched=True "
                                 'other_attributes=[] | chunks=TypeError ndim=TypeError hash=TypeError',
 'init/none-shape/inf': 'raised TypeError("\'NoneType\' object is not subscriptable",) cause=None '
                        'context=NoneType suppress_context=False',
 'init/none-shape/kB': "state: records_per_chunk=int64:np.int64(2) chunk_offsets={0: {'offset': 16, 'size': "
                       '32}} inputs_untouched=True other_attributes=[] | chunks=TypeError ndim=TypeError '
                       'hash=TypeError',
 'init/none-shape/list': 'raised TypeError("\'NoneType\' object is not subscriptable",) cause=None '
                         'context=NoneType suppress_context=False',
 'init/none-shape/nan': 'raised ValueError("Could not interpret \'nan\' as a byte unit",) '
                        "cause=KeyError('nan') context=KeyError suppress_context=True",
 'init/none-shape/nan-float': 'raised TypeError("\'NoneType\' object is not subscriptable",) cause=None '
                              'context=NoneType suppress_context=False',
 'init/none-shape/ndarray': 'raised TypeError("\'NoneType\' object is not subscriptable",) cause=None '
                            'context=NoneType suppress_context=False',
 'init/none-shape/np.int64(-1)': 'raised TypeError("\'NoneType\' object is not subscriptable",) cause=None '
                                 'context=NoneType suppress_context=False',
 'init/none-shape/np.int64(3)': 'raised TypeError("\'NoneType\' object is not subscriptable",) cause=None '
                                'context=NoneType suppress_context=False',
 'init/none-shape/np.int64(50)': 'raised TypeError("\'NoneType\' object is not subscriptable",) cause=None '
                                 'context=NoneType suppress_context=False',
 'init/none-shape/tuple': 'raised TypeError("\'NoneType\' object is not subscriptable",) cause=None '
                          'context=NoneType suppress_context=False',
 'init/ragged/-1': "state: records_per_chunk=int:5 chunk_offsets={0: {'offset': 0, 'size': 100}} "
                   'inputs_untouched=True other_attributes=[] | chunks=(5, 4) ndim=2 hash=TypeError',
 'init/ragged/-1.0': "state: records_per_chunk=int:5 chunk_offsets={0: {'offset': 0, 'size': 100}} "
                     'inputs_untouched=True other_attributes=[] | chunks=(5, 4) ndim=2 hash=TypeError',
 'init/ragged/-2': 'state: records_per_chunk=int:-2 chunk_offsets={} inputs_untouched=True '
                   'other_attributes=[] | chunks=(-2, 4) ndim=2 hash=TypeError',
 'init/ragged/-40B': "state: records_per_chunk=int64:np.int64(1) chunk_offsets={0: {'offset': 0, 'size': "
                     "10}, 1: {'offset': 10, 'size': 4}, 2: {'offset': 20, 'size': 30}, 3: {'offset': 50, "
                     "'size': 1}, 4: {'offset': 60, 'size': 40}} inputs_untouched=True other_attributes=[] | "
                     'chunks=(np.int64(1), 4) ndim=2 hash=TypeError',
 'init/ragged/0': 'state: records_per_chunk=int:0 chunk_offsets={} inputs_untouched=True other_attributes=[] '
                  '| chunks=(0, 4) ndim=2 hash=TypeError',
 'init/ragged/0.1kB': "state: records_per_chunk=int64:np.int64(5) chunk_offsets={0: {'offset': 0, 'size': "
                      '100}} inputs_untouched=True other_attributes=[] | chunks=(np.int64(5), 4) ndim=2 '
                      'hash=TypeError',
 'init/ragged/0B': "state: records_per_chunk=int64:np.int64(1) chunk_offsets={0: {'offset': 0, 'size': 10}, "
                   "1: {'offset': 10, 'size': 4}, 2: {'offset': 20, 'size': 30}, 3: {'offset': 50, 'size': "
                   "1}, 4: {'offset': 60, 'size': 40}} inputs_untouched=True other_attributes=[] | "
                   'chunks=(np.int64(1), 4) ndim=2 hash=TypeError',
 'init/ragged/1': "state: records_per_chunk=int:1 chunk_offsets={0: {'offset': 0, 'size': 10}, 1: {'offset': "
                  "10, 'size': 4}, 2: {'offset': 20, 'size': 30}, 3: {'offset': 50, 'size': 1}, 4: "
                  "{'offset': 60, 'size': 40}} inputs_untouched=True other_attributes=[] | chunks=(1, 4) "
                  'ndim=2 hash=TypeError',
 'init/ragged/1 MB': "state: records_per_chunk=int64:np.int64(5) chunk_offsets={0: {'offset': 0, 'size': "
                     '100}} inputs_untouched=True other_attributes=[] | chunks=(np.int64(5), 4) ndim=2 '
                     'hash=TypeError',
 'init/ragged/100': "state: records_per_chunk=int64:np.int64(5) chunk_offsets={0: {'offset': 0, 'size': "
                    '100}} inputs_untouched=True other_attributes=[] | chunks=(np.int64(5), 4) ndim=2 '
                    'hash=TypeError',
 'init/ragged/1000': "state: records_per_chunk=int:5 chunk_offsets={0: {'offset': 0, 'size': 100}} "
                     'inputs_untouched=True other_attributes=[] | chunks=(5, 4) ndim=2 hash=TypeError',
 'init/ragged/12B': "state: records_per_chunk=int64:np.int64(1) chunk_offsets={0: {'offset': 0, 'size': 10}, "
                    "1: {'offset': 10, 'size': 4}, 2: {'offset': 20, 'size': 30}, 3: {'offset': 50, 'size': "
                    "1}, 4: {'offset': 60, 'size': 40}} inputs_untouched=True other_attributes=[] | "
                    'chunks=(np.int64(1), 4) ndim=2 hash=TypeError',
 'init/ragged/13B': "state: records_per_chunk=int64:np.int64(2) chunk_offsets={0: {'offset': 0, 'size': 14}, "
                    "1: {'offset': 20, 'size': 31}, 2: {'offset': 60, 'size': 40}} inputs_untouched=True "
                    'other_attributes=[] | chunks=(np.int64(2), 4) ndim=2 hash=TypeError',
 'init/ragged/18B': "state: records_per_chunk=int64:np.int64(2) chunk_offsets={0: {'offset': 0, 'size': 14}, "
                    "1: {'offset': 20, 'size': 31}, 2: {'offset': 60, 'size': 40}} inputs_untouched=True "
                    'other_attributes=[] | chunks=(np.int64(2), 4) ndim=2 hash=TypeError',
 'init/ragged/1e400': "raised OverflowError('cannot convert float infinity to integer',) cause=None "
                      'context=NoneType suppress_context=False',
 'init/ragged/1kiB': "state: records_per_chunk=int64:np.int64(5) chunk_offsets={0: {'offset': 0, 'size': "
                     '100}} inputs_untouched=True other_attributes=[] | chunks=(np.int64(5), 4) ndim=2 '
                     'hash=TypeError',
 'init/ragged/2.5': 'raised TypeError("can\'t multiply sequence by non-int of type \'float\'",) cause=None '
                    'context=NoneType suppress_context=False',
 'init/ragged/3': "state: records_per_chunk=int:3 chunk_offsets={0: {'offset': 0, 'size': 50}, 1: {'offset': "
                  "50, 'size': 50}} inputs_untouched=True other_attributes=[] | chunks=(3, 4) ndim=2 "
                  'hash=TypeError',
 'init/ragged/30B': "state: records_per_chunk=int64:np.int64(3) chunk_offsets={0: {'offset': 0, 'size': 50}, "
                    "1: {'offset': 50, 'size': 50}} inputs_untouched=True other_attributes=[] | "
                    'chunks=(np.int64(3), 4) ndim=2 hash=TypeError',
 'init/ragged/5 foos': 'raised ValueError("Could not interpret \'foos\' as a byte unit",) '
                       "cause=KeyError('foos') context=KeyError suppress_context=True",
 'init/ragged/8': "state: records_per_chunk=int:5 chunk_offsets={0: {'offset': 0, 'size': 100}} "
                  'inputs_untouched=True other_attributes=[] | chunks=(5, 4) ndim=2 hash=TypeError',
 'init/ragged/9': "state: records_per_chunk=int:5 chunk_offsets={0: {'offset': 0, 'size': 100}} "
                  'inputs_untouched=True other_attributes=[] | chunks=(5, 4) ndim=2 hash=TypeError',
 'init/ragged/<default>': "state: records_per_chunk=int:1024 chunk_offsets={0: {'offset': 0, 'size': 100}} "
                          'inputs_untouched=True other_attributes=[] | chunks=(1024, 4) ndim=2 '
                          'hash=TypeError',
 'init/ragged/AUTO': 'raised ValueError("Could not interpret \'AUTO\' as a byte unit",) '
                     "cause=KeyError('auto') context=KeyError suppress_context=True",
 'init/ragged/False': 'state: records_per_chunk=bool:False chunk_offsets={} inputs_untouched=True '
                      'other_attributes=[] | chunks=(False, 4) ndim=2 hash=TypeError',
 'init/ragged/None': "state: records_per_chunk=int:1024 chunk_offsets={0: {'offset': 0, 'size': 100}} "
                     'inputs_untouched=True other_attributes=[] | chunks=(1024, 4) ndim=2 hash=TypeError',
 'init/ragged/True': "state: records_per_chunk=bool:True chunk_offsets={0: {'offset': 0, 'size': 10}, 1: "
                     "{'offset': 10, 'size': 4}, 2: {'offset': 20, 'size': 30}, 3: {'offset': 50, 'size': "
                     "1}, 4: {'offset': 60, 'size': 40}} inputs_untouched=True other_attributes=[] | "
                     'chunks=(True, 4) ndim=2 hash=TypeError',
 'init/ragged/auto': "state: records_per_chunk=int64:np.int64(5) chunk_offsets={0: {'offset': 0, 'size': "
                     '100}} inputs_untouched=True other_attributes=[] | chunks=(np.int64(5), 4) ndim=2 '
                     'hash=TypeError',
 'init/ragged/auto-padded': 'raised ValueError("Could not interpret \'auto\' as a byte unit",) '
                            "cause=KeyError('auto') context=KeyError suppress_context=True",
 'init/ragged/auto-subclass': "state: records_per_chunk=int64:np.int64(5) chunk_offsets={0: {'offset': 0, "
                              "'size': 100}} inputs_untouched=True other_attributes=[] | "
                              'chunks=(np.int64(5), 4) ndim=2 hash=TypeError',
 'init/ragged/blank-string': "state: records_per_chunk=int64:np.int64(1) chunk_offsets={0: {'offset': 0, "
                             "'size': 10}, 1: {'offset': 10, 'size': 4}, 2: {'offset': 20, 'size': 30}, 3: "
                             "{'offset': 50, 'size': 1}, 4: {'offset': 60, 'size': 40}} "
                             'inputs_untouched=True other_attributes=[] | chunks=(np.int64(1), 4) ndim=2 '
                             'hash=TypeError',
 'init/ragged/bytes': 'raised TypeError("\'>\' not supported between instances of \'bytes\' and \'int\'",) '
                      'cause=None context=NoneType suppress_context=False',
 'init/ragged/complex': 'raised TypeError("\'>\' not supported between instances of \'complex\' and '
                        '\'int\'",) cause=None context=NoneType suppress_context=False',
 'init/ragged/dict': 'raised TypeError("\'>\' not supported between instances of \'dict\' and \'int\'",) '
                     'cause=None context=NoneType suppress_context=False',
 'init/ragged/empty-string': "state: records_per_chunk=int64:np.int64(1) chunk_offsets={0: {'offset': 0, "
                             "'size': 10}, 1: {'offset': 10, 'size': 4}, 2: {'offset': 20, 'size': 30}, 3: "
                             "{'offset': 50, 'size': 1}, 4: {'offset': 60, 'size': 40}} "
                             'inputs_untouched=True other_attributes=[] | chunks=(np.int64(1), 4) ndim=2 '
                             'hash=TypeError',
 'init/ragged/inf': "state: records_per_chunk=int:5 chunk_offsets={0: {'offset': 0, 'size': 100}} "
                    'inputs_untouched=True other_attributes=[] | chunks=(5, 4) ndim=2 hash=TypeError',
 'init/ragged/kB': "state: records_per_chunk=int64:np.int64(5) chunk_offsets={0: {'offset': 0, 'size': 100}} "
                   'inputs_untouched=True other_attributes=[] | chunks=(np.int64(5), 4) ndim=2 '
                   'hash=TypeError',
 'init/ragged/list': 'raised TypeError("\'>\' not supported between instances of \'list\' and \'int\'",) '
                     'cause=None context=NoneType suppress_context=False',
 'init/ragged/nan': 'raised ValueError("Could not interpret \'nan\' as a byte unit",) '
                    "cause=KeyError('nan') context=KeyError suppress_context=True",
 'init/ragged/nan-float': 'raised TypeError("can\'t multiply sequence by non-int of type \'float\'",) '
                          'cause=None context=NoneType suppress_context=False',
 'init/ragged/ndarray': "raised ValueError('The truth value of an array with more than one element is "
                        "ambiguous. Use a.any() or a.all()',) cause=None context=NoneType "
                        'suppress_context=False',
 'init/ragged/np.int64(-1)': "state: records_per_chunk=int:5 chunk_offsets={0: {'offset': 0, 'size': 100}} "
                             'inputs_untouched=True other_attributes=[] | chunks=(5, 4) ndim=2 '
                             'hash=TypeError',
 'init/ragged/np.int64(3)': "state: records_per_chunk=int64:np.int64(3) chunk_offsets={0: {'offset': 0, "
                            "'size': 50}, 1: {'offset': 50, 'size': 50}} inputs_untouched=True "
                            'other_attributes=[] | chunks=(np.int64(3), 4) ndim=2 hash=TypeError',
 'init/ragged/np.int64(50)': "state: records_per_chunk=int:5 chunk_offsets={0: {'offset': 0, 'size': 100}} "
                             'inputs_untouched=True other_attributes=[] | chunks=(5, 4) ndim=2 '
                             'hash=TypeError',
 'init/ragged/tuple': 'raised TypeError("\'>\' not supported between instances of \'tuple\' and \'int\'",) '
                      'cause=None context=NoneType suppress_context=False',
 'init/regular/-1': "state: records_per_chunk=int:8 chunk_offsets={0: {'offset': 16, 'size': 152}} "
                    'inputs_untouched=True other_attributes=[] | chunks=(8, 6) ndim=2 hash=TypeError',
 'init/regular/-1.0': "state: records_per_chunk=int:8 chunk_offsets={0: {'offset': 16, 'size': 152}} "
                      'inputs_untouched=True other_attributes=[] | chunks=(8, 6) ndim=2 hash=TypeError',
 'init/regular/-2': 'state: records_per_chunk=int:-2 chunk_offsets={} inputs_untouched=True '
                    'other_attributes=[] | chunks=(-2, 6) ndim=2 hash=TypeError',
 'init/regular/-40B': "state: records_per_chunk=int64:np.int64(1) chunk_offsets={0: {'offset': 16, 'size': "
                      "12}, 1: {'offset': 36, 'size': 12}, 2: {'offset': 56, 'size': 12}, 3: {'offset': 76, "
                      "'size': 12}, 4: {'offset': 96, 'size': 12}, 5: {'offset': 116, 'size': 12}, 6: "
                      "{'offset': 136, 'size': 12}, 7: {'offset': 156, 'size': 12}} inputs_untouched=True "
                      'other_attributes=[] | chunks=(np.int64(1), 6) ndim=2 hash=TypeError',
 'init/regular/0': 'state: records_per_chunk=int:0 chunk_offsets={} inputs_untouched=True '
                   'other_attributes=[] | chunks=(0, 6) ndim=2 hash=TypeError',
 'init/regular/0.1kB': "state: records_per_chunk=int64:np.int64(8) chunk_offsets={0: {'offset': 16, 'size': "
                       '152}} inputs_untouched=True other_attributes=[] | chunks=(np.int64(8), 6) ndim=2 '
                       'hash=TypeError',
 'init/regular/0B': "state: records_per_chunk=int64:np.int64(1) chunk_offsets={0: {'offset': 16, 'size': "
                    "12}, 1: {'offset': 36, 'size': 12}, 2: {'offset': 56, 'size': 12}, 3: {'offset': 76, "
                    "'size': 12}, 4: {'offset': 96, 'size': 12}, 5: {'offset': 116, 'size': 12}, 6: "
                    "{'offset': 136, 'size': 12}, 7: {'offset': 156, 'size': 12}} inputs_untouched=True "
                    'other_attributes=[] | chunks=(np.int64(1), 6) ndim=2 hash=TypeError',
 'init/regular/1': "state: records_per_chunk=int:1 chunk_offsets={0: {'offset': 16, 'size': 12}, 1: "
                   "{'offset': 36, 'size': 12}, 2: {'offset': 56, 'size': 12}, 3: {'offset': 76, 'size': "
                   "12}, 4: {'offset': 96, 'size': 12}, 5: {'offset': 116, 'size': 12}, 6: {'offset': 136, "
                   "'size': 12}, 7: {'offset': 156, 'size': 12}} inputs_untouched=True other_attributes=[] | "
                   'chunks=(1, 6) ndim=2 hash=TypeError',
 'init/regular/1 MB': "state: records_per_chunk=int64:np.int64(8) chunk_offsets={0: {'offset': 16, 'size': "
                      '152}} inputs_untouched=True other_attributes=[] | chunks=(np.int64(8), 6) ndim=2 '
                      'hash=TypeError',
 'init/regular/100': "state: records_per_chunk=int64:np.int64(8) chunk_offsets={0: {'offset': 16, 'size': "
                     '152}} inputs_untouched=True other_attributes=[] | chunks=(np.int64(8), 6) ndim=2 '
                     'hash=TypeError',
 'init/regular/1000': "state: records_per_chunk=int:8 chunk_offsets={0: {'offset': 16, 'size': 152}} "
                      'inputs_untouched=True other_attributes=[] | chunks=(8, 6) ndim=2 hash=TypeError',
 'init/regular/12B': "state: records_per_chunk=int64:np.int64(1) chunk_offsets={0: {'offset': 16, 'size': "
                     "12}, 1: {'offset': 36, 'size': 12}, 2: {'offset': 56, 'size': 12}, 3: {'offset': 76, "
                     "'size': 12}, 4: {'offset': 96, 'size': 12}, 5: {'offset': 116, 'size': 12}, 6: "
                     "{'offset': 136, 'size': 12}, 7: {'offset': 156, 'size': 12}} inputs_untouched=True "
                     'other_attributes=[] | chunks=(np.int64(1), 6) ndim=2 hash=TypeError',
 'init/regular/13B': "state: records_per_chunk=int64:np.int64(1) chunk_offsets={0: {'offset': 16, 'size': "
                     "12}, 1: {'offset': 36, 'size': 12}, 2: {'offset': 56, 'size': 12}, 3: {'offset': 76, "
                     "'size': 12}, 4: {'offset': 96, 'size': 12}, 5: {'offset': 116, 'size': 12}, 6: "
                     "{'offset': 136, 'size': 12}, 7: {'offset': 156, 'size': 12}} inputs_untouched=True "
                     'other_attributes=[] | chunks=(np.int64(1), 6) ndim=2 hash=TypeError',
 'init/regular/18B': "state: records_per_chunk=int64:np.int64(1) chunk_offsets={0: {'offset': 16, 'size': "
                     "12}, 1: {'offset': 36, 'size': 12}, 2: {'offset': 56, 'size': 12}, 3: {'offset': 76, "
                     "'size': 12}, 4: {'offset': 96, 'size': 12}, 5: {'offset': 116, 'size': 12}, 6: "
                     "{'offset': 136, 'size': 12}, 7: {'offset': 156, 'size': 12}} inputs_untouched=True "
                     'other_attributes=[] | chunks=(np.int64(1), 6) ndim=2 hash=TypeError',
 'init/regular/1e400': "raised OverflowError('cannot convert float infinity to integer',) cause=None "
                       'context=NoneType suppress_context=False',
 'init/regular/1kiB': "state: records_per_chunk=int64:np.int64(8) chunk_offsets={0: {'offset': 16, 'size': "
                      '152}} inputs_untouched=True other_attributes=[] | chunks=(np.int64(8), 6) ndim=2 '
                      'hash=TypeError',
 'init/regular/2.5': 'raised TypeError("can\'t multiply sequence by non-int of type \'float\'",) cause=None '
                     'context=NoneType suppress_context=False',
 'init/regular/3': "state: records_per_chunk=int:3 chunk_offsets={0: {'offset': 16, 'size': 52}, 1: "
                   "{'offset': 76, 'size': 52}, 2: {'offset': 136, 'size': 32}} inputs_untouched=True "
                   'other_attributes=[] | chunks=(3, 6) ndim=2 hash=TypeError',
 'init/regular/30B': "state: records_per_chunk=int64:np.int64(2) chunk_offsets={0: {'offset': 16, 'size': "
                     "32}, 1: {'offset': 56, 'size': 32}, 2: {'offset': 96, 'size': 32}, 3: {'offset': 136, "
                     "'size': 32}} inputs_untouched=True other_attributes=[] | chunks=(np.int64(2), 6) "
                     'ndim=2 hash=TypeError',
 'init/regular/5 foos': 'raised ValueError("Could not interpret \'foos\' as a byte unit",) '
                        "cause=KeyError('foos') context=KeyError suppress_context=True",
 'init/regular/8': "state: records_per_chunk=int:8 chunk_offsets={0: {'offset': 16, 'size': 152}} "
                   'inputs_untouched=True other_attributes=[] | chunks=(8, 6) ndim=2 hash=TypeError',
 'init/regular/9': "state: records_per_chunk=int:8 chunk_offsets={0: {'offset': 16, 'size': 152}} "
                   'inputs_untouched=True other_attributes=[] | chunks=(8, 6) ndim=2 hash=TypeError',
 'init/regular/<default>': "state: records_per_chunk=int:1024 chunk_offsets={0: {'offset': 16, 'size': 152}} "
                           'inputs_untouched=True other_attributes=[] | chunks=(1024, 6) ndim=2 '
                           'hash=TypeError',
 'init/regular/AUTO': 'raised ValueError("Could not interpret \'AUTO\' as a byte unit",) '
                      "cause=KeyError('auto') context=KeyError suppress_context=True",
 'init/regular/False': 'state: records_per_chunk=bool:False chunk_offsets={} inputs_untouched=True '
                       'other_attributes=[] | chunks=(False, 6) ndim=2 hash=TypeError',
 'init/regular/None': "state: records_per_chunk=int:1024 chunk_offsets={0: {'offset': 16, 'size': 152}} "
                      'inputs_untouched=True other_attributes=[] | chunks=(1024, 6) ndim=2 hash=TypeError',
 'init/regular/True': "state: records_per_chunk=bool:True chunk_offsets={0: {'offset': 16, 'size': 12}, 1: "
                      "{'offset': 36, 'size': 12}, 2: {'offset': 56, 'size': 12}, 3: {'offset': 76, 'size': "
                      "12}, 4: {'offset': 96, 'size': 12}, 5: {'offset': 116, 'size': 12}, 6: {'offset': "
                      "136, 'size': 12}, 7: {'offset': 156, 'size': 12}} inputs_untouched=True "
                      'other_attributes=[] | chunks=(True, 6) ndim=2 hash=TypeError',
 'init/regular/auto': "state: records_per_chunk=int64:np.int64(8) chunk_offsets={0: {'offset': 16, 'size': "
                      '152}} inputs_untouched=True other_attributes=[] | chunks=(np.int64(8), 6) ndim=2 '
                      'hash=TypeError',
 'init/regular/auto-padded': 'raised ValueError("Could not interpret \'auto\' as a byte unit",) '
                             "cause=KeyError('auto') context=KeyError suppress_context=True",
 'init/regular/auto-subclass': "state: records_per_chunk=int64:np.int64(8) chunk_offsets={0: {'offset': 16, "
                               "'size': 152}} inputs_untouched=True other_attributes=[] | "
                               'chunks=(np.int64(8), 6) ndim=2 hash=TypeError',
 'init/regular/blank-string': "state: records_per_chunk=int64:np.int64(1) chunk_offsets={0: {'offset': 16, "
                              "'size': 12}, 1: {'offset': 36, 'size': 12}, 2: {'offset': 56, 'size': 12}, 3: "
                              "{'offset': 76, 'size': 12}, 4: {'offset': 96, 'size': 12}, 5: {'offset': 116, "
                              "'size': 12}, 6: {'offset': 136, 'size': 12}, 7: {'offset': 156, 'size': 12}} "
                              'inputs_untouched=True other_attributes=[] | chunks=(np.int64(1), 6) ndim=2 '
                              'hash=TypeError',
 'init/regular/bytes': 'raised TypeError("\'>\' not supported between instances of \'bytes\' and \'int\'",) '
                       'cause=None context=NoneType suppress_context=False',
 'init/regular/complex': 'raised TypeError("\'>\' not supported between instances of \'complex\' and '
                         '\'int\'",) cause=None context=NoneType suppress_context=False',
 'init/regular/dict': 'raised TypeError("\'>\' not supported between instances of \'dict\' and \'int\'",) '
                      'cause=None context=NoneType suppress_context=False',
 'init/regular/empty-string': "state: records_per_chunk=int64:np.int64(1) chunk_offsets={0: {'offset': 16, "
                              "'size': 12}, 1: {'offset': 36, 'size': 12}, 2: {'offset': 56, 'size': 12}, 3: "
                              "{'offset': 76, 'size': 12}, 4: {'offset': 96, 'size': 12}, 5: {'offset': 116, "
                              "'size': 12}, 6: {'offset': 136, 'size': 12}, 7: {'offset': 156, 'size': 12}} "
                              'inputs_untouched=True other_attributes=[] | chunks=(np.int64(1), 6) ndim=2 '
                              'hash=TypeError',
 'init/regular/inf': "state: records_per_chunk=int:8 chunk_offsets={0: {'offset': 16, 'size': 152}} "
                     'inputs_untouched=True other_attributes=[] | chunks=(8, 6) ndim=2 hash=TypeError',
 'init/regular/kB': "state: records_per_chunk=int64:np.int64(8) chunk_offsets={0: {'offset': 16, 'size': "
                    '152}} inputs_untouched=True other_attributes=[] | chunks=(np.int64(8), 6) ndim=2 '
                    'hash=TypeError',
 'init/regular/list': 'raised TypeError("\'>\' not supported between instances of \'list\' and \'int\'",) '
                      'cause=None context=NoneType suppress_context=False',
 'init/regular/nan': 'raised ValueError("Could not interpret \'nan\' as a byte unit",) '
                     "cause=KeyError('nan') context=KeyError suppress_context=True",
 'init/regular/nan-float': 'raised TypeError("can\'t multiply sequence by non-int of type \'float\'",) '
                           'cause=None context=NoneType suppress_context=False',
 'init/regular/ndarray': "raised ValueError('The truth value of an array with more than one element is "
                         "ambiguous. Use a.any() or a.all()',) cause=None context=NoneType "
                         'suppress_context=False',
 'init/regular/np.int64(-1)': "state: records_per_chunk=int:8 chunk_offsets={0: {'offset': 16, 'size': 152}} "
                              'inputs_untouched=True other_attributes=[] | chunks=(8, 6) ndim=2 '
                              'hash=TypeError',
 'init/regular/np.int64(3)': "state: records_per_chunk=int64:np.int64(3) chunk_offsets={0: {'offset': 16, "
                             "'size': 52}, 1: {'offset': 76, 'size': 52}, 2: {'offset': 136, 'size': 32}} "
                             'inputs_untouched=True other_attributes=[] | chunks=(np.int64(3), 6) ndim=2 '
                             'hash=TypeError',
 'init/regular/np.int64(50)': "state: records_per_chunk=int:8 chunk_offsets={0: {'offset': 16, 'size': 152}} "
                              'inputs_untouched=True other_attributes=[] | chunks=(8, 6) ndim=2 '
                              'hash=TypeError',
 'init/regular/tuple': 'raised TypeError("\'>\' not supported between instances of \'tuple\' and \'int\'",) '
                       'cause=None context=NoneType suppress_context=False',
 'init/scalar-shape/-1': "raised IndexError('tuple index out of range',) cause=None context=NoneType "
                         'suppress_context=False',
 'init/scalar-shape/-1.0': "raised IndexError('tuple index out of range',) cause=None context=NoneType "
                           'suppress_context=False',
 'init/scalar-shape/-2': "raised IndexError('tuple index out of range',) cause=None context=NoneType "
                         'suppress_context=False',
 'init/scalar-shape/-40B': "state: records_per_chunk=int64:np.int64(1) chunk_offsets={0: {'offset': 16, "
                           "'size': 12}, 1: {'offset': 36, 'size': 12}} inputs_untouched=True "
                           'other_attributes=[] | chunks=(np.int64(1),) ndim=0 hash=TypeError',
 'init/scalar-shape/0': "raised IndexError('tuple index out of range',) cause=None context=NoneType "
                        'suppress_context=False',
 'init/scalar-shape/0.1kB': "state: records_per_chunk=int64:np.int64(2) chunk_offsets={0: {'offset': 16, "
                            "'size': 32}} inputs_untouched=True other_attributes=[] | chunks=(np.int64(2),) "
                            'ndim=0 hash=TypeError',
 'init/scalar-shape/0B': "state: records_per_chunk=int64:np.int64(1) chunk_offsets={0: {'offset': 16, "
                         "'size': 12}, 1: {'offset': 36, 'size': 12}} inputs_untouched=True "
                         'other_attributes=[] | chunks=(np.int64(1),) ndim=0 hash=TypeError',
 'init/scalar-shape/1': "raised IndexError('tuple index out of range',) cause=None context=NoneType "
                        'suppress_context=False',
 'init/scalar-shape/1 MB': "state: records_per_chunk=int64:np.int64(2) chunk_offsets={0: {'offset': 16, "
                           "'size': 32}} inputs_untouched=True other_attributes=[] | chunks=(np.int64(2),) "
                           'ndim=0 hash=TypeError',
 'init/scalar-shape/100': "state: records_per_chunk=int64:np.int64(2) chunk_offsets={0: {'offset': 16, "
                          "'size': 32}} inputs_untouched=True other_attributes=[] | chunks=(np.int64(2),) "
                          'ndim=0 hash=TypeError',
 'init/scalar-shape/1000': "raised IndexError('tuple index out of range',) cause=None context=NoneType "
                           'suppress_context=False',
 'init/scalar-shape/12B': "state: records_per_chunk=int64:np.int64(1) chunk_offsets={0: {'offset': 16, "
                          "'size': 12}, 1: {'offset': 36, 'size': 12}} inputs_untouched=True "
                          'other_attributes=[] | chunks=(np.int64(1),) ndim=0 hash=TypeError',
 'init/scalar-shape/13B': "state: records_per_chunk=int64:np.int64(1) chunk_offsets={0: {'offset': 16, "
                          "'size': 12}, 1: {'offset': 36, 'size': 12}} inputs_untouched=True "
                          'other_attributes=[] | chunks=(np.int64(1),) ndim=0 hash=TypeError',
 'init/scalar-shape/18B': "state: records_per_chunk=int64:np.int64(1) chunk_offsets={0: {'offset': 16, "
                          "'size': 12}, 1: {'offset': 36, 'size': 12}} inputs_untouched=True "
                          'other_attributes=[] | chunks=(np.int64(1),) ndim=0 hash=TypeError',
 'init/scalar-shape/1e400': "raised OverflowError('cannot convert float infinity to integer',) cause=None "
                            'context=NoneType suppress_context=False',
 'init/scalar-shape/1kiB': "state: records_per_chunk=int64:np.int64(2) chunk_offsets={0: {'offset': 16, "
                           "'size': 32}} inputs_untouched=True other_attributes=[] | chunks=(np.int64(2),) "
                           'ndim=0 hash=TypeError',
 'init/scalar-shape/2.5': "raised IndexError('tuple index out of range',) cause=None context=NoneType "
                          'suppress_context=False',
 'init/scalar-shape/3': "raised IndexError('tuple index out of range',) cause=None context=NoneType "
                        'suppress_context=False',
 'init/scalar-shape/30B': "state: records_per_chunk=int64:np.int64(2) chunk_offsets={0: {'offset': 16, "
                          "'size': 32}} inputs_untouched=True other_attributes=[] | chunks=(np.int64(2),) "
                          'ndim=0 hash=TypeError',
 'init/scalar-shape/5 foos': 'raised ValueError("Could not interpret \'foos\' as a byte unit",) '
                             "cause=KeyError('foos') context=KeyError suppress_context=True",
 'init/scalar-shape/8': "raised IndexError('tuple index out of range',) cause=None context=NoneType "
                        'suppress_context=False',
 'init/scalar-shape/9': "raised IndexError('tuple index out of range',) cause=None context=NoneType "
                        'suppress_context=False',
 'init/scalar-shape/<default>': "state: records_per_chunk=int:1024 chunk_offsets={0: {'offset': 16, 'size': "
                                '32}} inputs_untouched=True other_attributes=[] | chunks=(1024,) ndim=0 '
                                'hash=TypeError',
 'init/scalar-shape/AUTO': 'raised ValueError("Could not interpret \'AUTO\' as a byte unit",) '
                           "cause=KeyError('auto') context=KeyError suppress_context=True",
 'init/scalar-shape/False': "raised IndexError('tuple index out of range',) cause=None context=NoneType "
                            'suppress_context=False',
 'init/scalar-shape/None': "state: records_per_chunk=int:1024 chunk_offsets={0: {'offset': 16, 'size': 32}} "
                           'inputs_untouched=True other_attributes=[] | chunks=(1024,) ndim=0 hash=TypeError',
 'init/scalar-shape/True': "raised IndexError('tuple index out of range',) cause=None context=NoneType "
                           'suppress_context=False',
 'init/scalar-shape/auto': "state: records_per_chunk=int64:np.int64(2) chunk_offsets={0: {'offset': 16, "
                           "'size': 32}} inputs_untouched=True other_attributes=[] | chunks=(np.int64(2),) "
                           'ndim=0 hash=TypeError',
 'init/scalar-shape/auto-padded': 'raised ValueError("Could not interpret \'auto\' as a byte unit",) '
                                  "cause=KeyError('auto') context=KeyError suppress_context=True",
 'init/scalar-shape/auto-subclass': "state: records_per_chunk=int64:np.int64(2) chunk_offsets={0: {'offset': "
                                    "16, 'size': 32}} inputs_untouched=True other_attributes=[] | "
                                    'chunks=(np.int64(2),) ndim=0 hash=TypeError',
 'init/scalar-shape/blank-string': "state: records_per_chunk=int64:np.int64(1) chunk_offsets={0: {'offset': "
                                   "16, 'size': 12}, 1: {'offset': 36, 'size': 12}} inputs_untouched=True "
                                   'other_attributes=[] | chunks=(np.int64(1),) ndim=0 hash=TypeError',
 'init/scalar-shape/bytes': "raised IndexError('tuple index out of range',) cause=None context=NoneType "
                            'suppress_context=False',
 'init/scalar-shape/complex': "raised IndexError('tuple index out of range',) cause=None context=NoneType "
                              'suppress_context=False',
 'init/scalar-shape/dict': "raised IndexError('tuple index out of range',) cause=None context=NoneType "
                           'suppress_context=False',
 'init/scalar-shape/empty-string': "state: records_per_chunk=int64:np.int64(1) chunk_offsets={0: {'offset': "
                                   "16, 'size': 12}, 1: {'offset': 36, 'size': 12}} inputs_untouched=True "
                                   'other_attributes=[] | chunks=(np.int64(1),) ndim=0 hash=TypeError',
 'init/scalar-shape/inf': "raised IndexError('tuple index out of range',) cause=None context=NoneType "
                          'suppress_context=False',
 'init/scalar-shape/kB': "state: records_per_chunk=int64:np.int64(2) chunk_offsets={0: {'offset': 16, "
                         "'size': 32}} inputs_untouched=True other_attributes=[] | chunks=(np.int64(2),) "
                         'ndim=0 hash=TypeError',
 'init/scalar-shape/list': "raised IndexError('tuple index out of range',) cause=None context=NoneType "
                           'suppress_context=False',
 'init/scalar-shape/nan': 'raised ValueError("Could not interpret \'nan\' as a byte unit",) '
                          "cause=KeyError('nan') context=KeyError suppress_context=True",
 'init/scalar-shape/nan-float': "raised IndexError('tuple index out of range',) cause=None context=NoneType "
                                'suppress_context=False',
 'init/scalar-shape/ndarray': "raised IndexError('tuple index out of range',) cause=None context=NoneType "
                              'suppress_context=False',
 'init/scalar-shape/np.int64(-1)': "raised IndexError('tuple index out of range',) cause=None "
                                   'context=NoneType suppress_context=False',
 'init/scalar-shape/np.int64(3)': "raised IndexError('tuple index out of range',) cause=None "
                                  'context=NoneType suppress_context=False',
 'init/scalar-shape/np.int64(50)': "raised IndexError('tuple index out of range',) cause=None "
                                   'context=NoneType suppress_context=False',
 'init/scalar-shape/tuple': "raised IndexError('tuple index out of range',) cause=None context=NoneType "
                            'suppress_context=False',
 'replace/None': "records_per_chunk=int:1024 chunk_offsets={0: {'offset': 16, 'size': 152}} "
                 'inputs_untouched=True other_attributes=[]',
 'replace/eq': '(np.False_, True)',
 'repr': "Array(url='url', shape=(8, 6), dtype='uint16', records_per_chunk=np.int64(2))",
 'spy/-1': "returned None | state: records_per_chunk=int:5 chunk_offsets={0: {'offset': 0, 'size': 100}} "
           'inputs_untouched=True other_attributes=[] | calls: shape[0] ; normalize_chunksize(*(-1, 5), '
           '**{}) ; compute_chunk_offsets(*([(0, 10), (10, 14), (20, 50), (50, 51), (60, 100)], 5), **{})',
 'spy/1000': "returned None | state: records_per_chunk=int:5 chunk_offsets={0: {'offset': 0, 'size': 100}} "
             'inputs_untouched=True other_attributes=[] | calls: shape[0] ; normalize_chunksize(*(1000, 5), '
             '**{}) ; compute_chunk_offsets(*([(0, 10), (10, 14), (20, 50), (50, 51), (60, 100)], 5), **{})',
 'spy/18B': "returned None | state: records_per_chunk=int64:np.int64(2) chunk_offsets={0: {'offset': 0, "
            "'size': 14}, 1: {'offset': 20, 'size': 31}, 2: {'offset': 60, 'size': 40}} "
            "inputs_untouched=True other_attributes=[] | calls: parse_bytes(*('18B',), **{}) ; "
            'determine_nearest_chunksize(*(array([10,  4, 30,  1, 40]), 18), **{}) ; '
            'compute_chunk_offsets(*([(0, 10), (10, 14), (20, 50), (50, 51), (60, 100)], np.int64(2)), **{})',
 'spy/3': "returned None | state: records_per_chunk=int:3 chunk_offsets={0: {'offset': 0, 'size': 50}, 1: "
          "{'offset': 50, 'size': 50}} inputs_untouched=True other_attributes=[] | calls: shape[0] ; "
          'normalize_chunksize(*(3, 5), **{}) ; compute_chunk_offsets(*([(0, 10), (10, 14), (20, 50), (50, '
          '51), (60, 100)], 3), **{})',
 'spy/5 foos': 'raised ValueError("Could not interpret \'foos\' as a byte unit",) cause=KeyError(\'foos\') '
               "context=KeyError suppress_context=True | state: records_per_chunk=str:'5 foos' "
               "chunk_offsets='<unset>' inputs_untouched=True other_attributes=[] | calls: parse_bytes(*('5 "
               "foos',), **{})",
 'spy/None': "returned None | state: records_per_chunk=int:1024 chunk_offsets={0: {'offset': 0, 'size': "
             '100}} inputs_untouched=True other_attributes=[] | calls: compute_chunk_offsets(*([(0, 10), '
             '(10, 14), (20, 50), (50, 51), (60, 100)], 1024), **{})',
 'spy/auto': "returned None | state: records_per_chunk=int64:np.int64(5) chunk_offsets={0: {'offset': 0, "
             "'size': 100}} inputs_untouched=True other_attributes=[] | calls: "
             'determine_nearest_chunksize(*(array([10,  4, 30,  1, 40]), 104857600), **{}) ; '
             'compute_chunk_offsets(*([(0, 10), (10, 14), (20, 50), (50, 51), (60, 100)], np.int64(5)), '
             '**{})',
 'spy/auto-subclass': 'returned None | state: records_per_chunk=int64:np.int64(5) chunk_offsets={0: '
                      "{'offset': 0, 'size': 100}} inputs_untouched=True other_attributes=[] | calls: "
                      'determine_nearest_chunksize(*(array([10,  4, 30,  1, 40]), 104857600), **{}) ; '
                      'compute_chunk_offsets(*([(0, 10), (10, 14), (20, 50), (50, 51), (60, 100)], '
                      'np.int64(5)), **{})',
 'spy/broken-ranges': 'raised TypeError("\'NoneType\' object is not iterable",) cause=None context=NoneType '
                      "suppress_context=False | state: records_per_chunk=str:'5 foos' "
                      "chunk_offsets='<unset>' inputs_untouched=True other_attributes=[] | calls: ",
 'spy/list': 'raised TypeError("\'>\' not supported between instances of \'list\' and \'int\'",) cause=None '
             'context=NoneType suppress_context=False | state: records_per_chunk=list:[2] '
             "chunk_offsets='<unset>' inputs_untouched=True other_attributes=[] | calls: shape[0] ; "
             'normalize_chunksize(*([2], 5), **{})',
 'state/no-records/-1': 'returned None | state: records_per_chunk=int:0 chunk_offsets={} '
                        'inputs_untouched=True other_attributes=[]',
 'state/no-records/1000': 'returned None | state: records_per_chunk=int:0 chunk_offsets={} '
                          'inputs_untouched=True other_attributes=[]',
 'state/no-records/12B': "raised ValueError('attempt to get argmin of an empty sequence',) cause=None "
                         "context=NoneType suppress_context=False | state: records_per_chunk=str:'12B' "
                         "chunk_offsets='<unset>' inputs_untouched=True other_attributes=[]",
 'state/no-records/3': 'returned None | state: records_per_chunk=int:0 chunk_offsets={} '
                       'inputs_untouched=True other_attributes=[]',
 'state/no-records/5 foos': 'raised ValueError("Could not interpret \'foos\' as a byte unit",) '
                            "cause=KeyError('foos') context=KeyError suppress_context=True | state: "
                            "records_per_chunk=str:'5 foos' chunk_offsets='<unset>' inputs_untouched=True "
                            'other_attributes=[]',
 'state/no-records/None': 'returned None | state: records_per_chunk=int:1024 chunk_offsets={} '
                          'inputs_untouched=True other_attributes=[]',
 'state/no-records/auto': "raised ValueError('attempt to get argmin of an empty sequence',) cause=None "
                          "context=NoneType suppress_context=False | state: records_per_chunk=str:'auto' "
                          "chunk_offsets='<unset>' inputs_untouched=True other_attributes=[]",
 'state/no-records/empty-string': "raised ValueError('attempt to get argmin of an empty sequence',) "
                                  'cause=None context=NoneType suppress_context=False | state: '
                                  "records_per_chunk=str:'' chunk_offsets='<unset>' inputs_untouched=True "
                                  'other_attributes=[]',
 'state/no-records/list': 'raised TypeError("\'>\' not supported between instances of \'list\' and '
                          '\'int\'",) cause=None context=NoneType suppress_context=False | state: '
                          "records_per_chunk=list:[2] chunk_offsets='<unset>' inputs_untouched=True "
                          'other_attributes=[]',
 'state/none-shape/-1': 'raised TypeError("\'NoneType\' object is not subscriptable",) cause=None '
                        'context=NoneType suppress_context=False | state: records_per_chunk=int:-1 '
                        "chunk_offsets='<unset>' inputs_untouched=True other_attributes=[]",
 'state/none-shape/1000': 'raised TypeError("\'NoneType\' object is not subscriptable",) cause=None '
                          'context=NoneType suppress_context=False | state: records_per_chunk=int:1000 '
                          "chunk_offsets='<unset>' inputs_untouched=True other_attributes=[]",
 'state/none-shape/12B': 'returned None | state: records_per_chunk=int64:np.int64(1) chunk_offsets={0: '
                         "{'offset': 16, 'size': 12}, 1: {'offset': 36, 'size': 12}} inputs_untouched=True "
                         'other_attributes=[]',
 'state/none-shape/3': 'raised TypeError("\'NoneType\' object is not subscriptable",) cause=None '
                       'context=NoneType suppress_context=False | state: records_per_chunk=int:3 '
                       "chunk_offsets='<unset>' inputs_untouched=True other_attributes=[]",
 'state/none-shape/5 foos': 'raised ValueError("Could not interpret \'foos\' as a byte unit",) '
                            "cause=KeyError('foos') context=KeyError suppress_context=True | state: "
                            "records_per_chunk=str:'5 foos' chunk_offsets='<unset>' inputs_untouched=True "
                            'other_attributes=[]',
 'state/none-shape/None': "returned None | state: records_per_chunk=int:1024 chunk_offsets={0: {'offset': "
                          "16, 'size': 32}} inputs_untouched=True other_attributes=[]",
 'state/none-shape/auto': 'returned None | state: records_per_chunk=int64:np.int64(2) chunk_offsets={0: '
                          "{'offset': 16, 'size': 32}} inputs_untouched=True other_attributes=[]",
 'state/none-shape/empty-string': 'returned None | state: records_per_chunk=int64:np.int64(1) '
                                  "chunk_offsets={0: {'offset': 16, 'size': 12}, 1: {'offset': 36, 'size': "
                                  '12}} inputs_untouched=True other_attributes=[]',
 'state/none-shape/list': 'raised TypeError("\'NoneType\' object is not subscriptable",) cause=None '
                          'context=NoneType suppress_context=False | state: records_per_chunk=list:[2] '
                          "chunk_offsets='<unset>' inputs_untouched=True other_attributes=[]",
 'state/regular/-1': "returned None | state: records_per_chunk=int:8 chunk_offsets={0: {'offset': 16, "
                     "'size': 152}} inputs_untouched=True other_attributes=[]",
 'state/regular/1000': "returned None | state: records_per_chunk=int:8 chunk_offsets={0: {'offset': 16, "
                       "'size': 152}} inputs_untouched=True other_attributes=[]",
 'state/regular/12B': 'returned None | state: records_per_chunk=int64:np.int64(1) chunk_offsets={0: '
                      "{'offset': 16, 'size': 12}, 1: {'offset': 36, 'size': 12}, 2: {'offset': 56, 'size': "
                      "12}, 3: {'offset': 76, 'size': 12}, 4: {'offset': 96, 'size': 12}, 5: {'offset': 116, "
                      "'size': 12}, 6: {'offset': 136, 'size': 12}, 7: {'offset': 156, 'size': 12}} "
                      'inputs_untouched=True other_attributes=[]',
 'state/regular/3': "returned None | state: records_per_chunk=int:3 chunk_offsets={0: {'offset': 16, 'size': "
                    "52}, 1: {'offset': 76, 'size': 52}, 2: {'offset': 136, 'size': 32}} "
                    'inputs_untouched=True other_attributes=[]',
 'state/regular/5 foos': 'raised ValueError("Could not interpret \'foos\' as a byte unit",) '
                         "cause=KeyError('foos') context=KeyError suppress_context=True | state: "
                         "records_per_chunk=str:'5 foos' chunk_offsets='<unset>' inputs_untouched=True "
                         'other_attributes=[]',
 'state/regular/None': "returned None | state: records_per_chunk=int:1024 chunk_offsets={0: {'offset': 16, "
                       "'size': 152}} inputs_untouched=True other_attributes=[]",
 'state/regular/auto': 'returned None | state: records_per_chunk=int64:np.int64(8) chunk_offsets={0: '
                       "{'offset': 16, 'size': 152}} inputs_untouched=True other_attributes=[]",
 'state/regular/empty-string': 'returned None | state: records_per_chunk=int64:np.int64(1) chunk_offsets={0: '
                               "{'offset': 16, 'size': 12}, 1: {'offset': 36, 'size': 12}, 2: {'offset': 56, "
                               "'size': 12}, 3: {'offset': 76, 'size': 12}, 4: {'offset': 96, 'size': 12}, "
                               "5: {'offset': 116, 'size': 12}, 6: {'offset': 136, 'size': 12}, 7: "
                               "{'offset': 156, 'size': 12}} inputs_untouched=True other_attributes=[]",
 'state/regular/list': 'raised TypeError("\'>\' not supported between instances of \'list\' and \'int\'",) '
                       'cause=None context=NoneType suppress_context=False | state: '
                       "records_per_chunk=list:[2] chunk_offsets='<unset>' inputs_untouched=True "
                       'other_attributes=[]',
 'state/scalar-shape/-1': "raised IndexError('tuple index out of range',) cause=None context=NoneType "
                          "suppress_context=False | state: records_per_chunk=int:-1 chunk_offsets='<unset>' "
                          'inputs_untouched=True other_attributes=[]',
 'state/scalar-shape/1000': "raised IndexError('tuple index out of range',) cause=None context=NoneType "
                            'suppress_context=False | state: records_per_chunk=int:1000 '
                            "chunk_offsets='<unset>' inputs_untouched=True other_attributes=[]",
 'state/scalar-shape/12B': 'returned None | state: records_per_chunk=int64:np.int64(1) chunk_offsets={0: '
                           "{'offset': 16, 'size': 12}, 1: {'offset': 36, 'size': 12}} inputs_untouched=True "
                           'other_attributes=[]',
 'state/scalar-shape/3': "raised IndexError('tuple index out of range',) cause=None context=NoneType "
                         "suppress_context=False | state: records_per_chunk=int:3 chunk_offsets='<unset>' "
                         'inputs_untouched=True other_attributes=[]',
 'state/scalar-shape/5 foos': 'raised ValueError("Could not interpret \'foos\' as a byte unit",) '
                              "cause=KeyError('foos') context=KeyError suppress_context=True | state: "
                              "records_per_chunk=str:'5 foos' chunk_offsets='<unset>' inputs_untouched=True "
                              'other_attributes=[]',
 'state/scalar-shape/None': "returned None | state: records_per_chunk=int:1024 chunk_offsets={0: {'offset': "
                            "16, 'size': 32}} inputs_untouched=True other_attributes=[]",
 'state/scalar-shape/auto': 'returned None | state: records_per_chunk=int64:np.int64(2) chunk_offsets={0: '
                            "{'offset': 16, 'size': 32}} inputs_untouched=True other_attributes=[]",
 'state/scalar-shape/empty-string': 'returned None | state: records_per_chunk=int64:np.int64(1) '
                                    "chunk_offsets={0: {'offset': 16, 'size': 12}, 1: {'offset': 36, 'size': "
                                    '12}} inputs_untouched=True other_attributes=[]',
 'state/scalar-shape/list': "raised IndexError('tuple index out of range',) cause=None context=NoneType "
                            'suppress_context=False | state: records_per_chunk=list:[2] '
                            "chunk_offsets='<unset>' inputs_untouched=True other_attributes=[]",
 'twice/30B': "records_per_chunk=int64:np.int64(2) chunk_offsets={0: {'offset': 16, 'size': 32}, 1: "
              "{'offset': 56, 'size': 32}, 2: {'offset': 96, 'size': 32}, 3: {'offset': 136, 'size': 32}} "
              'inputs_untouched=True other_attributes=[] -> records_per_chunk=int64:np.int64(2) '
              "chunk_offsets={0: {'offset': 16, 'size': 32}, 1: {'offset': 56, 'size': 32}, 2: {'offset': "
              "96, 'size': 32}, 3: {'offset': 136, 'size': 32}} inputs_untouched=True other_attributes=[]"}


def test_equiv():
    assert EXPECTED is not None, "expected values have not been recorded"
    observed = observe()
    assert sorted(observed) == sorted(EXPECTED)
    for key in EXPECTED:
        assert observed[key] == EXPECTED[key], key


if __name__ == "__main__":
    if "--record" in sys.argv:
        print("EXPECTED = " + pprint.pformat(observe(), width=110, sort_dicts=True))
    else:
        test_equiv()
        print(f"ok: {len(EXPECTED)} observations identical ({array.__file__})")
