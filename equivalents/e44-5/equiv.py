"""Equivalence check for refactoring 5: results recorded from the unchanged code.

Run: cd /tmp/wt6/e44 && PYTHONPATH=/tmp/wt6/e44 /venv/bin/python _eq/5/equiv.py
(also collectable by pytest: `pytest _eq/5/equiv.py`).
"""
import datetime
import sys

from ceos_alos2.hierarchy import Group, Variable

try:
    ExceptionGroup
except NameError:  # pragma: no cover
    from exceptiongroup import ExceptionGroup


def canon(obj):
    """Canonical, type- and order-preserving text form of a result."""
    if isinstance(obj, Group):
        return (
            f"Group(path={obj.path!r}, url={obj.url!r}, "
            f"data={canon(obj.data)}, attrs={canon(obj.attrs)})"
        )
    if isinstance(obj, Variable):  # pragma: no cover
        return f"Variable(dims={obj.dims!r}, data={obj.data!r}, attrs={canon(obj.attrs)})"
    if type(obj) is dict:
        return "{" + ", ".join(f"{canon(k)}: {canon(v)}" for k, v in obj.items()) + "}"
    if type(obj) is list:
        return "[" + ", ".join(canon(v) for v in obj) + "]"
    if type(obj) is tuple:
        return "(" + ", ".join(canon(v) for v in obj) + ",)"
    if isinstance(obj, (str, bytes, int, float, bool, type(None), datetime.datetime)):
        return f"{type(obj).__name__}:{obj!r}"
    return f"<{type(obj).__qualname__}>:{obj!r}"


def canon_exc(e):
    text = f"{type(e).__name__}{e.args!r}"
    if isinstance(e, ExceptionGroup):
        text += "[" + "; ".join(canon_exc(sub) for sub in e.exceptions) + "]"
    if e.__cause__ is not None:
        text += f" from {canon_exc(e.__cause__)}"
    return text


def outcome(func, *args, **kwargs):
    try:
        result = func(*args, **kwargs)
    except BaseException as e:  # noqa: B902 - StopIteration etc. are part of the record
        return "RAISES " + canon_exc(e)
    return "RETURNS " + canon(result)


def check(cases, expected, run):
    """Run every case; with --record print the table, otherwise compare."""
    actual = {name: run(*case) for name, case in cases.items()}
    if "--record" in sys.argv:
        print("EXPECTED = {")
        for name, value in actual.items():
            print(f"    {name!r}: (\n        {value!r}\n    ),")
        print("}")
        return 0

    assert list(actual) == list(expected), "case list and EXPECTED are out of sync"
    failures = [name for name in cases if actual[name] != expected[name]]
    for name in failures:
        print(f"MISMATCH {name}\n  expected: {expected[name]}\n  actual:   {actual[name]}")
    assert not failures, f"{len(failures)} of {len(cases)} cases differ"
    print(f"ok: {len(cases)} cases identical to the recorded behaviour")
    return 0


from ceos_alos2 import summary


class Text(str):
    """A str subclass: must be treated exactly like a str."""


CASES = {
    "empty": ({},),
    "suite_scene1": ({"SceneID": "ALOS2290760600-191011", "SceneShift": "0"},),
    "suite_scene2": ({"SceneID": "ALOS2225333200-180726", "SceneShift": "1"},),
    "shift_first": ({"SceneShift": "-2", "SceneID": "ALOS2225333200-180726"},),
    "only_scene_id": ({"SceneID": "ALOS2000010000-000101"},),
    "only_shift": ({"SceneShift": " +5 "},),
    "leading_zeros": ({"SceneID": "ALOS2000070008-991231"},),
    "century_pivot_68": ({"SceneID": "ALOS2123456789-681231"},),
    "century_pivot_69": ({"SceneID": "ALOS2123456789-690101"},),
    "leap_day": ({"SceneID": "ALOS2123456789-240229"},),
    "other_mission": ({"SceneID": "AB12C123456789-200615"},),
    "str_subclass": ({Text("SceneID"): Text("ALOS2290760600-191011"), Text("SceneShift"): Text("3")},),
    # unknown keys are kept as they are, in place
    "unknown_keys": (
        {"Before": "b", "SceneID": "ALOS2290760600-191011", "Between": "", "SceneShift": "0", "After": "a"},
    ),
    "unknown_key_types": ({"Number": 1, "Nothing": None, "List": [1, "2"]},),
    # a nested mapping is flattened like the decoded scene id
    "unknown_nested_mapping": ({"Extra": {"x": "1", "y": {"z": "2"}}, "SceneShift": "4"},),
    # keys colliding with the parts of the decoded scene id
    "collision_before": (
        {"date": "mine", "scene_frame": "mine", "SceneID": "ALOS2290760600-191011"},
    ),
    "collision_after": (
        {"SceneID": "ALOS2290760600-191011", "date": "mine", "mission_name": "mine"},
    ),
    "collision_shift_in_nested": ({"Extra": {"SceneShift": "nested"}, "SceneShift": "7"},),
    "shift_of_number": ({"SceneShift": 3.9},),
    "shift_of_bool": ({"SceneShift": True},),
    # errors
    "id_invalid": ({"SceneID": "nope"},),
    "id_empty": ({"SceneID": ""},),
    "id_lower_case": ({"SceneID": "alos2290760600-191011"},),
    "id_trailing": ({"SceneID": "ALOS2290760600-191011 "},),
    "id_trailing_newline": ({"SceneID": "ALOS2290760600-191011\n"},),
    "id_short_date": ({"SceneID": "ALOS2290760600-19101"},),
    "id_impossible_month": ({"SceneID": "ALOS2290760600-191311"},),
    "id_impossible_day": ({"SceneID": "ALOS2290760600-180732"},),
    "id_not_leap_day": ({"SceneID": "ALOS2290760600-230229"},),
    "id_zero_day": ({"SceneID": "ALOS2290760600-191000"},),
    "id_none": ({"SceneID": None},),
    "id_bytes": ({"SceneID": b"ALOS2290760600-191011"},),
    "id_number": ({"SceneID": 2290760600},),
    "shift_invalid": ({"SceneShift": "x"},),
    "shift_float_text": ({"SceneShift": "1.0"},),
    "shift_empty": ({"SceneShift": ""},),
    "shift_none": ({"SceneShift": None},),
    "id_error_first": ({"SceneID": "nope", "SceneShift": "x"},),
    "shift_error_first": ({"SceneShift": "x", "SceneID": "nope"},),
    "not_a_mapping": (None,),
    "list_of_pairs": ([("SceneShift", "1")],),
}


def run(section):
    before = canon(section)
    first = outcome(summary.transform_scene_spec, section)
    second = outcome(summary.transform_scene_spec, section)
    assert canon(section) == before, "input was modified"
    assert first == second
    return first

# fmt: off
EXPECTED = {
    'empty': (
        "RETURNS Group(path='/', url=None, data={}, attrs={})"
    ),
    'suite_scene1': (
        "RETURNS Group(path='/', url=None, data={}, attrs={str:'mission_name': str:'ALOS2', str:'orbit_accumulation': int:29076, str:'scene_frame': int:600, str:'date': str:'2019-10-11', str:'SceneShift': int:0})"
    ),
    'suite_scene2': (
        "RETURNS Group(path='/', url=None, data={}, attrs={str:'mission_name': str:'ALOS2', str:'orbit_accumulation': int:22533, str:'scene_frame': int:3200, str:'date': str:'2018-07-26', str:'SceneShift': int:1})"
    ),
    'shift_first': (
        "RETURNS Group(path='/', url=None, data={}, attrs={str:'SceneShift': int:-2, str:'mission_name': str:'ALOS2', str:'orbit_accumulation': int:22533, str:'scene_frame': int:3200, str:'date': str:'2018-07-26'})"
    ),
    'only_scene_id': (
        "RETURNS Group(path='/', url=None, data={}, attrs={str:'mission_name': str:'ALOS2', str:'orbit_accumulation': int:1, str:'scene_frame': int:0, str:'date': str:'2000-01-01'})"
    ),
    'only_shift': (
        "RETURNS Group(path='/', url=None, data={}, attrs={str:'SceneShift': int:5})"
    ),
    'leading_zeros': (
        "RETURNS Group(path='/', url=None, data={}, attrs={str:'mission_name': str:'ALOS2', str:'orbit_accumulation': int:7, str:'scene_frame': int:8, str:'date': str:'1999-12-31'})"
    ),
    'century_pivot_68': (
        "RETURNS Group(path='/', url=None, data={}, attrs={str:'mission_name': str:'ALOS2', str:'orbit_accumulation': int:12345, str:'scene_frame': int:6789, str:'date': str:'2068-12-31'})"
    ),
    'century_pivot_69': (
        "RETURNS Group(path='/', url=None, data={}, attrs={str:'mission_name': str:'ALOS2', str:'orbit_accumulation': int:12345, str:'scene_frame': int:6789, str:'date': str:'1969-01-01'})"
    ),
    'leap_day': (
        "RETURNS Group(path='/', url=None, data={}, attrs={str:'mission_name': str:'ALOS2', str:'orbit_accumulation': int:12345, str:'scene_frame': int:6789, str:'date': str:'2024-02-29'})"
    ),
    'other_mission': (
        "RETURNS Group(path='/', url=None, data={}, attrs={str:'mission_name': str:'AB12C', str:'orbit_accumulation': int:12345, str:'scene_frame': int:6789, str:'date': str:'2020-06-15'})"
    ),
    'str_subclass': (
        "RETURNS Group(path='/', url=None, data={}, attrs={str:'mission_name': str:'ALOS2', str:'orbit_accumulation': int:29076, str:'scene_frame': int:600, str:'date': str:'2019-10-11', Text:'SceneShift': int:3})"
    ),
    'unknown_keys': (
        "RETURNS Group(path='/', url=None, data={}, attrs={str:'Before': str:'b', str:'mission_name': str:'ALOS2', str:'orbit_accumulation': int:29076, str:'scene_frame': int:600, str:'date': str:'2019-10-11', str:'Between': str:'', str:'SceneShift': int:0, str:'After': str:'a'})"
    ),
    'unknown_key_types': (
        "RETURNS Group(path='/', url=None, data={}, attrs={str:'Number': int:1, str:'Nothing': NoneType:None, str:'List': [int:1, str:'2']})"
    ),
    'unknown_nested_mapping': (
        "RETURNS Group(path='/', url=None, data={}, attrs={str:'x': str:'1', str:'y': {str:'z': str:'2'}, str:'SceneShift': int:4})"
    ),
    'collision_before': (
        "RETURNS Group(path='/', url=None, data={}, attrs={str:'date': str:'2019-10-11', str:'scene_frame': int:600, str:'mission_name': str:'ALOS2', str:'orbit_accumulation': int:29076})"
    ),
    'collision_after': (
        "RETURNS Group(path='/', url=None, data={}, attrs={str:'mission_name': str:'mine', str:'orbit_accumulation': int:29076, str:'scene_frame': int:600, str:'date': str:'mine'})"
    ),
    'collision_shift_in_nested': (
        "RETURNS Group(path='/', url=None, data={}, attrs={str:'SceneShift': int:7})"
    ),
    'shift_of_number': (
        "RETURNS Group(path='/', url=None, data={}, attrs={str:'SceneShift': int:3})"
    ),
    'shift_of_bool': (
        "RETURNS Group(path='/', url=None, data={}, attrs={str:'SceneShift': int:1})"
    ),
    'id_invalid': (
        "RAISES ValueError('invalid scene id: nope',)"
    ),
    'id_empty': (
        "RAISES ValueError('invalid scene id: ',)"
    ),
    'id_lower_case': (
        "RAISES ValueError('invalid scene id: alos2290760600-191011',)"
    ),
    'id_trailing': (
        "RAISES ValueError('invalid scene id: ALOS2290760600-191011 ',)"
    ),
    'id_trailing_newline': (
        "RAISES ValueError('invalid scene id: ALOS2290760600-191011\\n',)"
    ),
    'id_short_date': (
        "RAISES ValueError('invalid scene id: ALOS2290760600-19101',)"
    ),
    'id_impossible_month': (
        "RAISES ValueError('invalid scene id: ALOS2290760600-191311',) from ValueError('unconverted data remains: 1',)"
    ),
    'id_impossible_day': (
        "RAISES ValueError('invalid scene id: ALOS2290760600-180732',) from ValueError('unconverted data remains: 2',)"
    ),
    'id_not_leap_day': (
        "RAISES ValueError('invalid scene id: ALOS2290760600-230229',) from ValueError('day is out of range for month',)"
    ),
    'id_zero_day': (
        'RAISES ValueError(\'invalid scene id: ALOS2290760600-191000\',) from ValueError("time data \'191000\' does not match format \'%y%m%d\'",)'
    ),
    'id_none': (
        'RAISES TypeError("expected string or bytes-like object, got \'NoneType\'",)'
    ),
    'id_bytes': (
        "RAISES TypeError('cannot use a string pattern on a bytes-like object',)"
    ),
    'id_number': (
        'RAISES TypeError("expected string or bytes-like object, got \'int\'",)'
    ),
    'shift_invalid': (
        'RAISES ValueError("invalid literal for int() with base 10: \'x\'",)'
    ),
    'shift_float_text': (
        'RAISES ValueError("invalid literal for int() with base 10: \'1.0\'",)'
    ),
    'shift_empty': (
        'RAISES ValueError("invalid literal for int() with base 10: \'\'",)'
    ),
    'shift_none': (
        'RAISES TypeError("int() argument must be a string, a bytes-like object or a real number, not \'NoneType\'",)'
    ),
    'id_error_first': (
        "RAISES ValueError('invalid scene id: nope',)"
    ),
    'shift_error_first': (
        'RAISES ValueError("invalid literal for int() with base 10: \'x\'",)'
    ),
    'not_a_mapping': (
        'RAISES AttributeError("\'NoneType\' object has no attribute \'items\'",)'
    ),
    'list_of_pairs': (
        'RAISES AttributeError("\'list\' object has no attribute \'items\'",)'
    ),
}
# fmt: on


def test_equivalence():
    check(CASES, EXPECTED, run)


if __name__ == "__main__":
    check(CASES, EXPECTED, run)
