"""equivalence check for refactoring 2: `ceos_alos2.summary.transform_product_info`

Runs `transform_product_info` (directly, through `transform_summary` and through
`open_summary`) on a spread of sections and compares a canonical description of the result
(values, key order, types, group paths, exception types, messages and chaining) with the
description recorded from the UNCHANGED code (commit 343c5cf).

run as a script (`python equiv.py`) or with pytest (`pytest equiv.py`).
"""

import sys

# --- shared description helpers (copied verbatim into every equiv.py) ---
import datetime


def describe_exc(e, depth=0):
    if e is None:
        return None
    if depth > 4:
        return ("exc", type(e).__name__, "...")
    out = {
        "type": type(e).__module__ + "." + type(e).__qualname__,
        "args": describe(e.args),
        "str": str(e),
        "cause": describe_exc(e.__cause__, depth + 1),
        "context": describe_exc(e.__context__, depth + 1),
        "suppress_context": e.__suppress_context__,
    }
    if hasattr(e, "exceptions"):
        out["exceptions"] = [describe_exc(sub, depth + 1) for sub in e.exceptions]
        out["message"] = e.message
    return out


def describe(obj):
    """canonical, order- and type-preserving description of a result"""
    from ceos_alos2.hierarchy import Group, Variable

    if isinstance(obj, Group):
        return {
            "Group": {
                "path": describe(obj.path),
                "url": describe(obj.url),
                "data": describe(obj.data),
                "attrs": describe(obj.attrs),
            }
        }
    if isinstance(obj, Variable):
        return {"Variable": [describe(obj.dims), repr(obj.data), describe(obj.attrs)]}
    if isinstance(obj, dict):
        return {"dict:" + type(obj).__name__: [[describe(k), describe(v)] for k, v in obj.items()]}
    if isinstance(obj, (list, tuple)):
        return {type(obj).__name__: [describe(v) for v in obj]}
    if isinstance(obj, BaseException):
        return {"exception-object": describe_exc(obj)}
    if isinstance(obj, (datetime.datetime, datetime.date)):
        return {type(obj).__name__: obj.isoformat()}
    return {type(obj).__name__: repr(obj)}


def run(func, *args, **kwargs):
    try:
        result = func(*args, **kwargs)
    except BaseException as e:  # noqa: B036 - we want StopIteration and friends, too
        return {"raised": describe_exc(e)}
    return {"returned": describe(result)}


import fsspec

from ceos_alos2 import summary

files = {
    "CntOfL11ProductFileName": "5",
    "L11ProductFileName01": "VOL-ALOS2225333200-180726-WWDR1.1__D",
    "L11ProductFileName02": "LED-ALOS2225333200-180726-WWDR1.1__D",
    "L11ProductFileName03": "IMG-HH-ALOS2225333200-180726-WWDR1.1__D-F1",
    "L11ProductFileName04": "IMG-HV-ALOS2225333200-180726-WWDR1.1__D-F1",
    "L11ProductFileName05": "TRL-ALOS2225333200-180726-WWDR1.1__D",
}
shapes = {
    "NoOfPixels_HH": "8000",
    "NoOfLines_HH": "9000",
    "NoOfPixels_HV": "8001",
    "NoOfLines_HV": "9001",
}
other = {"ProductFormat": "CEOS", "BitPixel": "32", "ProductDataSize": "798.2"}


def interleave(*mappings):
    iterators = [iter(m.items()) for m in mappings]
    result = {}
    while iterators:
        for it in list(iterators):
            try:
                key, value = next(it)
            except StopIteration:
                iterators.remove(it)
                continue
            result[key] = value
    return result


sections = {
    "empty": {},
    "only_other": dict(other),
    "only_other_unknown_keys": {"Something": "1", "BitPixel": "16", "Else": ""},
    "only_files": dict(files),
    "only_shapes": dict(shapes),
    "files_and_shapes": files | shapes,
    "all": files | shapes | other,
    "all_other_first": other | files | shapes,
    "all_shapes_first": shapes | other | files,
    "all_interleaved": interleave(files, shapes, other),
    "all_interleaved_reversed": interleave(
        dict(reversed(other.items())), dict(reversed(shapes.items())), files
    ),
    "minimal_files": {"ProductFileName1": "a", "ProductFileName2": "b", "ProductFileName3": "c"},
    "four_files": {
        "ProductFileName1": "a",
        "ProductFileName2": "b",
        "ProductFileName3": "c",
        "ProductFileName4": "d",
    },
    "count_in_the_middle": {
        "L15ProductFileName01": "a",
        "L15ProductFileName02": "b",
        "CntOfL15ProductFileName": "4",
        "L15ProductFileName03": "c",
        "L15ProductFileName04": "d",
    },
    "count_not_at_start": {
        "ProductFileName1": "a",
        "xCntProductFileName": "skipped?",
        "ProductFileName2": "b",
        "ProductFileName3": "c",
    },
    "only_count": {"CntOfL11ProductFileName": "0"},
    "too_few_files": {"CntOfL11ProductFileName": "2", "ProductFileName1": "a", "ProductFileName2": "b"},
    "shape_lines_first": {"NoOfLines_HH": "9000", "NoOfPixels_HH": "8000"},
    "shapes_interleaved_polarizations": {
        "NoOfPixels_HH": "1",
        "NoOfPixels_HV": "2",
        "NoOfLines_HV": "3",
        "NoOfLines_HH": "4",
        "NoOfPixels_VV": "5",
        "NoOfLines_VV": "6",
    },
    "shape_extra_underscores": {
        "NoOfPixels_HH_extra": "1",
        "NoOfLines_HH": "2",
        "NoOfPixels_HH": "3",
        "NoOfLines_HH_more_parts": "4",
    },
    "shape_extra_underscores_last_wins": {
        "NoOfPixels_HH": "3",
        "NoOfLines_HH": "2",
        "NoOfPixels_HH_extra": "1",
    },
    "shape_suffixed_names": {
        "NoOfPixelsX_HH": "1",
        "NoOfLines_HH": "2",
        "NoOfPixels_HH": "3",
    },
    "shape_empty_polarization": {"NoOfPixels_": "1", "NoOfLines_": "2"},
    "shape_whitespace_numbers": {"NoOfPixels_HH": " 12 ", "NoOfLines_HH": "+3"},
    "shape_underscore_numbers": {"NoOfPixels_HH": "1_000", "NoOfLines_HH": "0"},
    # failures
    "shape_without_polarization": {"NoOfPixels": "1", "NoOfLines": "2"},
    "shape_without_polarization_after_valid": {
        "NoOfPixels_HH": "x",
        "NoOfLines_HH": "2",
        "NoOfPixels": "1",
    },
    "shape_missing_lines": {"NoOfPixels_HH": "1"},
    "shape_missing_pixels": {"NoOfLines_HH": "1"},
    "shape_missing_pixels_bad_lines": {"NoOfLines_HH": "x"},
    "shape_missing_lines_bad_pixels": {"NoOfPixels_HH": "x"},
    "shape_missing_in_second": {
        "NoOfPixels_HH": "1",
        "NoOfLines_HH": "2",
        "NoOfPixels_HV": "3",
    },
    "shape_bad_pixels": {"NoOfPixels_HH": "1.5", "NoOfLines_HH": "2"},
    "shape_bad_lines": {"NoOfPixels_HH": "1", "NoOfLines_HH": ""},
    "shape_both_bad": {"NoOfPixels_HH": "a", "NoOfLines_HH": "b"},
    "shape_bad_second_and_first": {
        "NoOfPixels_HV": "a",
        "NoOfLines_HV": "1",
        "NoOfPixels_HH": "b",
        "NoOfLines_HH": "1",
    },
    "bad_bitpixel": {"BitPixel": "32.0"},
    "bad_data_size": {"ProductDataSize": "large"},
    "bad_other_and_bad_shape": {"BitPixel": "x", "NoOfPixels_HH": "y", "NoOfLines_HH": "1"},
    "bad_shape_and_bad_other": {"NoOfPixels_HH": "y", "NoOfLines_HH": "1", "BitPixel": "x"},
    "bad_files_and_bad_other": {"ProductFileName1": "a", "BitPixel": "x"},
    "bad_other_and_bad_files": {"BitPixel": "x", "ProductFileName1": "a"},
    "bad_shape_and_bad_files": {"NoOfPixels_HH": "1", "ProductFileName1": "a"},
    "non_string_values": {"BitPixel": 32, "ProductDataSize": 1, "ProductFormat": None},
    "non_string_shape_values": {"NoOfPixels_HH": 1.9, "NoOfLines_HH": True},
    "none_shape_value": {"NoOfPixels_HH": None, "NoOfLines_HH": "1"},
    "non_string_key": {1: "a"},
    "tuple_key": {("NoOfPixels", "HH"): "1"},
}

not_sections = {"none": None, "list": [("BitPixel", "1")], "string": "BitPixel"}


def open_from_memory(name, section):
    content = "\n".join(f'Pdi_{key}="{value}"' for key, value in section.items())
    mapper = fsspec.get_mapper(f"memory://eq2/{name}")
    mapper.clear()
    mapper["summary.txt"] = content.encode()
    return summary.open_summary(mapper, "summary.txt")


def collect():
    results = {}
    for name, section in sections.items():
        copied = dict(section)
        results[f"transform_product_info/{name}"] = run(summary.transform_product_info, section)
        # the argument is left alone
        results[f"transform_product_info/{name}/argument"] = describe(
            [section == copied, list(section) == list(copied)]
        )
    for name, section in not_sections.items():
        results[f"transform_product_info/not_a_section/{name}"] = run(
            summary.transform_product_info, section
        )

    # results are independent of each other and of the input
    section = dict(sections["all"])
    first = summary.transform_product_info(section)
    second = summary.transform_product_info(section)
    first.attrs["BitPixel"] = "changed"
    first["data_files"].attrs["sar_imagery"].append("changed")
    first["shapes"].attrs["XX"] = (0, 0)
    section["BitPixel"] = "64"
    results["independent_results"] = describe(
        [
            second,
            first.attrs is not second.attrs,
            first["shapes"].attrs is not second["shapes"].attrs,
            first["data_files"].attrs is not second["data_files"].attrs,
            first["data_files"].attrs["sar_imagery"]
            is not second["data_files"].attrs["sar_imagery"],
        ]
    )
    third = summary.transform_product_info(section)
    results["after_changing_the_input"] = describe(third)

    # embedded in the whole summary
    for name in ["all", "all_interleaved", "only_other", "empty", "shape_missing_lines"]:
        results[f"transform_summary/{name}"] = run(
            summary.transform_summary, {"pdi": sections[name], "rad": {"a": "b"}}
        )
    for name in [
        "all",
        "all_shapes_first",
        "count_in_the_middle",
        "shape_extra_underscores",
        "shape_without_polarization",
        "too_few_files",
        "bad_other_and_bad_shape",
    ]:
        results[f"open_summary/{name}"] = run(open_from_memory, name, sections[name])

    # the helper used for the file names
    for name, mapping in {
        "normal": {"1": "vd", "2": "l", "3": "im1", "4": "im2", "5": "tr"},
        "no_images": {"1": "vd", "2": "l", "5": "tr"},
        "short": {"1": "vd", "2": "l"},
        "empty": {},
    }.items():
        results[f"categorize_filenames/{name}"] = run(summary.categorize_filenames, mapping)

    return results


EXPECTED = {'transform_product_info/empty': {'returned': {'Group': {'path': {'str': "'product_info'"},
                                                         'url': {'NoneType': 'None'},
                                                         'data': {'dict:dict': []},
                                                         'attrs': {'dict:dict': []}}}},
 'transform_product_info/empty/argument': {'list': [{'bool': 'True'}, {'bool': 'True'}]},
 'transform_product_info/only_other': {'returned': {'Group': {'path': {'str': "'product_info'"},
                                                              'url': {'NoneType': 'None'},
                                                              'data': {'dict:dict': []},
                                                              'attrs': {'dict:dict': [[{'str': "'ProductFormat'"},
                                                                                       {'str': "'CEOS'"}],
                                                                                      [{'str': "'BitPixel'"},
                                                                                       {'int': '32'}],
                                                                                      [{'str': "'ProductDataSize'"},
                                                                                       {'float': '798.2'}]]}}}},
 'transform_product_info/only_other/argument': {'list': [{'bool': 'True'}, {'bool': 'True'}]},
 'transform_product_info/only_other_unknown_keys': {'returned': {'Group': {'path': {'str': "'product_info'"},
                                                                           'url': {'NoneType': 'None'},
                                                                           'data': {'dict:dict': []},
                                                                           'attrs': {'dict:dict': [[{'str': "'Something'"},
                                                                                                    {'str': "'1'"}],
                                                                                                   [{'str': "'BitPixel'"},
                                                                                                    {'int': '16'}],
                                                                                                   [{'str': "'Else'"},
                                                                                                    {'str': "''"}]]}}}},
 'transform_product_info/only_other_unknown_keys/argument': {'list': [{'bool': 'True'},
                                                                      {'bool': 'True'}]},
 'transform_product_info/only_files': {'returned': {'Group': {'path': {'str': "'product_info'"},
                                                              'url': {'NoneType': 'None'},
                                                              'data': {'dict:dict': [[{'str': "'data_files'"},
                                                                                      {'Group': {'path': {'str': "'product_info/data_files'"},
                                                                                                 'url': {'NoneType': 'None'},
                                                                                                 'data': {'dict:dict': []},
                                                                                                 'attrs': {'dict:dict': [[{'str': "'volume_directory'"},
                                                                                                                          {'str': "'VOL-ALOS2225333200-180726-WWDR1.1__D'"}],
                                                                                                                         [{'str': "'sar_leader'"},
                                                                                                                          {'str': "'LED-ALOS2225333200-180726-WWDR1.1__D'"}],
                                                                                                                         [{'str': "'sar_imagery'"},
                                                                                                                          {'list': [{'str': "'IMG-HH-ALOS2225333200-180726-WWDR1.1__D-F1'"},
                                                                                                                                    {'str': "'IMG-HV-ALOS2225333200-180726-WWDR1.1__D-F1'"}]}],
                                                                                                                         [{'str': "'sar_trailer'"},
                                                                                                                          {'str': "'TRL-ALOS2225333200-180726-WWDR1.1__D'"}]]}}}]]},
                                                              'attrs': {'dict:dict': []}}}},
 'transform_product_info/only_files/argument': {'list': [{'bool': 'True'}, {'bool': 'True'}]},
 'transform_product_info/only_shapes': {'returned': {'Group': {'path': {'str': "'product_info'"},
                                                               'url': {'NoneType': 'None'},
                                                               'data': {'dict:dict': [[{'str': "'shapes'"},
                                                                                       {'Group': {'path': {'str': "'product_info/shapes'"},
                                                                                                  'url': {'NoneType': 'None'},
                                                                                                  'data': {'dict:dict': []},
                                                                                                  'attrs': {'dict:dict': [[{'str': "'HH'"},
                                                                                                                           {'tuple': [{'int': '8000'},
                                                                                                                                      {'int': '9000'}]}],
                                                                                                                          [{'str': "'HV'"},
                                                                                                                           {'tuple': [{'int': '8001'},
                                                                                                                                      {'int': '9001'}]}]]}}}]]},
                                                               'attrs': {'dict:dict': []}}}},
 'transform_product_info/only_shapes/argument': {'list': [{'bool': 'True'}, {'bool': 'True'}]},
 'transform_product_info/files_and_shapes': {'returned': {'Group': {'path': {'str': "'product_info'"},
                                                                    'url': {'NoneType': 'None'},
                                                                    'data': {'dict:dict': [[{'str': "'data_files'"},
                                                                                            {'Group': {'path': {'str': "'product_info/data_files'"},
                                                                                                       'url': {'NoneType': 'None'},
                                                                                                       'data': {'dict:dict': []},
                                                                                                       'attrs': {'dict:dict': [[{'str': "'volume_directory'"},
                                                                                                                                {'str': "'VOL-ALOS2225333200-180726-WWDR1.1__D'"}],
                                                                                                                               [{'str': "'sar_leader'"},
                                                                                                                                {'str': "'LED-ALOS2225333200-180726-WWDR1.1__D'"}],
                                                                                                                               [{'str': "'sar_imagery'"},
                                                                                                                                {'list': [{'str': "'IMG-HH-ALOS2225333200-180726-WWDR1.1__D-F1'"},
                                                                                                                                          {'str': "'IMG-HV-ALOS2225333200-180726-WWDR1.1__D-F1'"}]}],
                                                                                                                               [{'str': "'sar_trailer'"},
                                                                                                                                {'str': "'TRL-ALOS2225333200-180726-WWDR1.1__D'"}]]}}}],
                                                                                           [{'str': "'shapes'"},
                                                                                            {'Group': {'path': {'str': "'product_info/shapes'"},
                                                                                                       'url': {'NoneType': 'None'},
                                                                                                       'data': {'dict:dict': []},
                                                                                                       'attrs': {'dict:dict': [[{'str': "'HH'"},
                                                                                                                                {'tuple': [{'int': '8000'},
                                                                                                                                           {'int': '9000'}]}],
                                                                                                                               [{'str': "'HV'"},
                                                                                                                                {'tuple': [{'int': '8001'},
                                                                                                                                           {'int': '9001'}]}]]}}}]]},
                                                                    'attrs': {'dict:dict': []}}}},
 'transform_product_info/files_and_shapes/argument': {'list': [{'bool': 'True'}, {'bool': 'True'}]},
 'transform_product_info/all': {'returned': {'Group': {'path': {'str': "'product_info'"},
                                                       'url': {'NoneType': 'None'},
                                                       'data': {'dict:dict': [[{'str': "'data_files'"},
                                                                               {'Group': {'path': {'str': "'product_info/data_files'"},
                                                                                          'url': {'NoneType': 'None'},
                                                                                          'data': {'dict:dict': []},
                                                                                          'attrs': {'dict:dict': [[{'str': "'volume_directory'"},
                                                                                                                   {'str': "'VOL-ALOS2225333200-180726-WWDR1.1__D'"}],
                                                                                                                  [{'str': "'sar_leader'"},
                                                                                                                   {'str': "'LED-ALOS2225333200-180726-WWDR1.1__D'"}],
                                                                                                                  [{'str': "'sar_imagery'"},
                                                                                                                   {'list': [{'str': "'IMG-HH-ALOS2225333200-180726-WWDR1.1__D-F1'"},
                                                                                                                             {'str': "'IMG-HV-ALOS2225333200-180726-WWDR1.1__D-F1'"}]}],
                                                                                                                  [{'str': "'sar_trailer'"},
                                                                                                                   {'str': "'TRL-ALOS2225333200-180726-WWDR1.1__D'"}]]}}}],
                                                                              [{'str': "'shapes'"},
                                                                               {'Group': {'path': {'str': "'product_info/shapes'"},
                                                                                          'url': {'NoneType': 'None'},
                                                                                          'data': {'dict:dict': []},
                                                                                          'attrs': {'dict:dict': [[{'str': "'HH'"},
                                                                                                                   {'tuple': [{'int': '8000'},
                                                                                                                              {'int': '9000'}]}],
                                                                                                                  [{'str': "'HV'"},
                                                                                                                   {'tuple': [{'int': '8001'},
                                                                                                                              {'int': '9001'}]}]]}}}]]},
                                                       'attrs': {'dict:dict': [[{'str': "'ProductFormat'"},
                                                                                {'str': "'CEOS'"}],
                                                                               [{'str': "'BitPixel'"},
                                                                                {'int': '32'}],
                                                                               [{'str': "'ProductDataSize'"},
                                                                                {'float': '798.2'}]]}}}},
 'transform_product_info/all/argument': {'list': [{'bool': 'True'}, {'bool': 'True'}]},
 'transform_product_info/all_other_first': {'returned': {'Group': {'path': {'str': "'product_info'"},
                                                                   'url': {'NoneType': 'None'},
                                                                   'data': {'dict:dict': [[{'str': "'data_files'"},
                                                                                           {'Group': {'path': {'str': "'product_info/data_files'"},
                                                                                                      'url': {'NoneType': 'None'},
                                                                                                      'data': {'dict:dict': []},
                                                                                                      'attrs': {'dict:dict': [[{'str': "'volume_directory'"},
                                                                                                                               {'str': "'VOL-ALOS2225333200-180726-WWDR1.1__D'"}],
                                                                                                                              [{'str': "'sar_leader'"},
                                                                                                                               {'str': "'LED-ALOS2225333200-180726-WWDR1.1__D'"}],
                                                                                                                              [{'str': "'sar_imagery'"},
                                                                                                                               {'list': [{'str': "'IMG-HH-ALOS2225333200-180726-WWDR1.1__D-F1'"},
                                                                                                                                         {'str': "'IMG-HV-ALOS2225333200-180726-WWDR1.1__D-F1'"}]}],
                                                                                                                              [{'str': "'sar_trailer'"},
                                                                                                                               {'str': "'TRL-ALOS2225333200-180726-WWDR1.1__D'"}]]}}}],
                                                                                          [{'str': "'shapes'"},
                                                                                           {'Group': {'path': {'str': "'product_info/shapes'"},
                                                                                                      'url': {'NoneType': 'None'},
                                                                                                      'data': {'dict:dict': []},
                                                                                                      'attrs': {'dict:dict': [[{'str': "'HH'"},
                                                                                                                               {'tuple': [{'int': '8000'},
                                                                                                                                          {'int': '9000'}]}],
                                                                                                                              [{'str': "'HV'"},
                                                                                                                               {'tuple': [{'int': '8001'},
                                                                                                                                          {'int': '9001'}]}]]}}}]]},
                                                                   'attrs': {'dict:dict': [[{'str': "'ProductFormat'"},
                                                                                            {'str': "'CEOS'"}],
                                                                                           [{'str': "'BitPixel'"},
                                                                                            {'int': '32'}],
                                                                                           [{'str': "'ProductDataSize'"},
                                                                                            {'float': '798.2'}]]}}}},
 'transform_product_info/all_other_first/argument': {'list': [{'bool': 'True'}, {'bool': 'True'}]},
 'transform_product_info/all_shapes_first': {'returned': {'Group': {'path': {'str': "'product_info'"},
                                                                    'url': {'NoneType': 'None'},
                                                                    'data': {'dict:dict': [[{'str': "'shapes'"},
                                                                                            {'Group': {'path': {'str': "'product_info/shapes'"},
                                                                                                       'url': {'NoneType': 'None'},
                                                                                                       'data': {'dict:dict': []},
                                                                                                       'attrs': {'dict:dict': [[{'str': "'HH'"},
                                                                                                                                {'tuple': [{'int': '8000'},
                                                                                                                                           {'int': '9000'}]}],
                                                                                                                               [{'str': "'HV'"},
                                                                                                                                {'tuple': [{'int': '8001'},
                                                                                                                                           {'int': '9001'}]}]]}}}],
                                                                                           [{'str': "'data_files'"},
                                                                                            {'Group': {'path': {'str': "'product_info/data_files'"},
                                                                                                       'url': {'NoneType': 'None'},
                                                                                                       'data': {'dict:dict': []},
                                                                                                       'attrs': {'dict:dict': [[{'str': "'volume_directory'"},
                                                                                                                                {'str': "'VOL-ALOS2225333200-180726-WWDR1.1__D'"}],
                                                                                                                               [{'str': "'sar_leader'"},
                                                                                                                                {'str': "'LED-ALOS2225333200-180726-WWDR1.1__D'"}],
                                                                                                                               [{'str': "'sar_imagery'"},
                                                                                                                                {'list': [{'str': "'IMG-HH-ALOS2225333200-180726-WWDR1.1__D-F1'"},
                                                                                                                                          {'str': "'IMG-HV-ALOS2225333200-180726-WWDR1.1__D-F1'"}]}],
                                                                                                                               [{'str': "'sar_trailer'"},
                                                                                                                                {'str': "'TRL-ALOS2225333200-180726-WWDR1.1__D'"}]]}}}]]},
                                                                    'attrs': {'dict:dict': [[{'str': "'ProductFormat'"},
                                                                                             {'str': "'CEOS'"}],
                                                                                            [{'str': "'BitPixel'"},
                                                                                             {'int': '32'}],
                                                                                            [{'str': "'ProductDataSize'"},
                                                                                             {'float': '798.2'}]]}}}},
 'transform_product_info/all_shapes_first/argument': {'list': [{'bool': 'True'}, {'bool': 'True'}]},
 'transform_product_info/all_interleaved': {'returned': {'Group': {'path': {'str': "'product_info'"},
                                                                   'url': {'NoneType': 'None'},
                                                                   'data': {'dict:dict': [[{'str': "'data_files'"},
                                                                                           {'Group': {'path': {'str': "'product_info/data_files'"},
                                                                                                      'url': {'NoneType': 'None'},
                                                                                                      'data': {'dict:dict': []},
                                                                                                      'attrs': {'dict:dict': [[{'str': "'volume_directory'"},
                                                                                                                               {'str': "'VOL-ALOS2225333200-180726-WWDR1.1__D'"}],
                                                                                                                              [{'str': "'sar_leader'"},
                                                                                                                               {'str': "'LED-ALOS2225333200-180726-WWDR1.1__D'"}],
                                                                                                                              [{'str': "'sar_imagery'"},
                                                                                                                               {'list': [{'str': "'IMG-HH-ALOS2225333200-180726-WWDR1.1__D-F1'"},
                                                                                                                                         {'str': "'IMG-HV-ALOS2225333200-180726-WWDR1.1__D-F1'"}]}],
                                                                                                                              [{'str': "'sar_trailer'"},
                                                                                                                               {'str': "'TRL-ALOS2225333200-180726-WWDR1.1__D'"}]]}}}],
                                                                                          [{'str': "'shapes'"},
                                                                                           {'Group': {'path': {'str': "'product_info/shapes'"},
                                                                                                      'url': {'NoneType': 'None'},
                                                                                                      'data': {'dict:dict': []},
                                                                                                      'attrs': {'dict:dict': [[{'str': "'HH'"},
                                                                                                                               {'tuple': [{'int': '8000'},
                                                                                                                                          {'int': '9000'}]}],
                                                                                                                              [{'str': "'HV'"},
                                                                                                                               {'tuple': [{'int': '8001'},
                                                                                                                                          {'int': '9001'}]}]]}}}]]},
                                                                   'attrs': {'dict:dict': [[{'str': "'ProductFormat'"},
                                                                                            {'str': "'CEOS'"}],
                                                                                           [{'str': "'BitPixel'"},
                                                                                            {'int': '32'}],
                                                                                           [{'str': "'ProductDataSize'"},
                                                                                            {'float': '798.2'}]]}}}},
 'transform_product_info/all_interleaved/argument': {'list': [{'bool': 'True'}, {'bool': 'True'}]},
 'transform_product_info/all_interleaved_reversed': {'returned': {'Group': {'path': {'str': "'product_info'"},
                                                                            'url': {'NoneType': 'None'},
                                                                            'data': {'dict:dict': [[{'str': "'shapes'"},
                                                                                                    {'Group': {'path': {'str': "'product_info/shapes'"},
                                                                                                               'url': {'NoneType': 'None'},
                                                                                                               'data': {'dict:dict': []},
                                                                                                               'attrs': {'dict:dict': [[{'str': "'HV'"},
                                                                                                                                        {'tuple': [{'int': '8001'},
                                                                                                                                                   {'int': '9001'}]}],
                                                                                                                                       [{'str': "'HH'"},
                                                                                                                                        {'tuple': [{'int': '8000'},
                                                                                                                                                   {'int': '9000'}]}]]}}}],
                                                                                                   [{'str': "'data_files'"},
                                                                                                    {'Group': {'path': {'str': "'product_info/data_files'"},
                                                                                                               'url': {'NoneType': 'None'},
                                                                                                               'data': {'dict:dict': []},
                                                                                                               'attrs': {'dict:dict': [[{'str': "'volume_directory'"},
                                                                                                                                        {'str': "'VOL-ALOS2225333200-180726-WWDR1.1__D'"}],
                                                                                                                                       [{'str': "'sar_leader'"},
                                                                                                                                        {'str': "'LED-ALOS2225333200-180726-WWDR1.1__D'"}],
                                                                                                                                       [{'str': "'sar_imagery'"},
                                                                                                                                        {'list': [{'str': "'IMG-HH-ALOS2225333200-180726-WWDR1.1__D-F1'"},
                                                                                                                                                  {'str': "'IMG-HV-ALOS2225333200-180726-WWDR1.1__D-F1'"}]}],
                                                                                                                                       [{'str': "'sar_trailer'"},
                                                                                                                                        {'str': "'TRL-ALOS2225333200-180726-WWDR1.1__D'"}]]}}}]]},
                                                                            'attrs': {'dict:dict': [[{'str': "'ProductDataSize'"},
                                                                                                     {'float': '798.2'}],
                                                                                                    [{'str': "'BitPixel'"},
                                                                                                     {'int': '32'}],
                                                                                                    [{'str': "'ProductFormat'"},
                                                                                                     {'str': "'CEOS'"}]]}}}},
 'transform_product_info/all_interleaved_reversed/argument': {'list': [{'bool': 'True'},
                                                                       {'bool': 'True'}]},
 'transform_product_info/minimal_files': {'returned': {'Group': {'path': {'str': "'product_info'"},
                                                                 'url': {'NoneType': 'None'},
                                                                 'data': {'dict:dict': [[{'str': "'data_files'"},
                                                                                         {'Group': {'path': {'str': "'product_info/data_files'"},
                                                                                                    'url': {'NoneType': 'None'},
                                                                                                    'data': {'dict:dict': []},
                                                                                                    'attrs': {'dict:dict': [[{'str': "'volume_directory'"},
                                                                                                                             {'str': "'a'"}],
                                                                                                                            [{'str': "'sar_leader'"},
                                                                                                                             {'str': "'b'"}],
                                                                                                                            [{'str': "'sar_imagery'"},
                                                                                                                             {'list': []}],
                                                                                                                            [{'str': "'sar_trailer'"},
                                                                                                                             {'str': "'c'"}]]}}}]]},
                                                                 'attrs': {'dict:dict': []}}}},
 'transform_product_info/minimal_files/argument': {'list': [{'bool': 'True'}, {'bool': 'True'}]},
 'transform_product_info/four_files': {'returned': {'Group': {'path': {'str': "'product_info'"},
                                                              'url': {'NoneType': 'None'},
                                                              'data': {'dict:dict': [[{'str': "'data_files'"},
                                                                                      {'Group': {'path': {'str': "'product_info/data_files'"},
                                                                                                 'url': {'NoneType': 'None'},
                                                                                                 'data': {'dict:dict': []},
                                                                                                 'attrs': {'dict:dict': [[{'str': "'volume_directory'"},
                                                                                                                          {'str': "'a'"}],
                                                                                                                         [{'str': "'sar_leader'"},
                                                                                                                          {'str': "'b'"}],
                                                                                                                         [{'str': "'sar_imagery'"},
                                                                                                                          {'list': [{'str': "'c'"}]}],
                                                                                                                         [{'str': "'sar_trailer'"},
                                                                                                                          {'str': "'d'"}]]}}}]]},
                                                              'attrs': {'dict:dict': []}}}},
 'transform_product_info/four_files/argument': {'list': [{'bool': 'True'}, {'bool': 'True'}]},
 'transform_product_info/count_in_the_middle': {'returned': {'Group': {'path': {'str': "'product_info'"},
                                                                       'url': {'NoneType': 'None'},
                                                                       'data': {'dict:dict': [[{'str': "'data_files'"},
                                                                                               {'Group': {'path': {'str': "'product_info/data_files'"},
                                                                                                          'url': {'NoneType': 'None'},
                                                                                                          'data': {'dict:dict': []},
                                                                                                          'attrs': {'dict:dict': [[{'str': "'volume_directory'"},
                                                                                                                                   {'str': "'a'"}],
                                                                                                                                  [{'str': "'sar_leader'"},
                                                                                                                                   {'str': "'b'"}],
                                                                                                                                  [{'str': "'sar_imagery'"},
                                                                                                                                   {'list': [{'str': "'c'"}]}],
                                                                                                                                  [{'str': "'sar_trailer'"},
                                                                                                                                   {'str': "'d'"}]]}}}]]},
                                                                       'attrs': {'dict:dict': []}}}},
 'transform_product_info/count_in_the_middle/argument': {'list': [{'bool': 'True'},
                                                                  {'bool': 'True'}]},
 'transform_product_info/count_not_at_start': {'returned': {'Group': {'path': {'str': "'product_info'"},
                                                                      'url': {'NoneType': 'None'},
                                                                      'data': {'dict:dict': [[{'str': "'data_files'"},
                                                                                              {'Group': {'path': {'str': "'product_info/data_files'"},
                                                                                                         'url': {'NoneType': 'None'},
                                                                                                         'data': {'dict:dict': []},
                                                                                                         'attrs': {'dict:dict': [[{'str': "'volume_directory'"},
                                                                                                                                  {'str': "'a'"}],
                                                                                                                                 [{'str': "'sar_leader'"},
                                                                                                                                  {'str': "'skipped?'"}],
                                                                                                                                 [{'str': "'sar_imagery'"},
                                                                                                                                  {'list': [{'str': "'b'"}]}],
                                                                                                                                 [{'str': "'sar_trailer'"},
                                                                                                                                  {'str': "'c'"}]]}}}]]},
                                                                      'attrs': {'dict:dict': []}}}},
 'transform_product_info/count_not_at_start/argument': {'list': [{'bool': 'True'},
                                                                 {'bool': 'True'}]},
 'transform_product_info/only_count': {'raised': {'type': 'builtins.ValueError',
                                                  'args': {'tuple': [{'str': "'not enough values "
                                                                             'to unpack (expected '
                                                                             'at least 3, got '
                                                                             "0)'"}]},
                                                  'str': 'not enough values to unpack (expected at '
                                                         'least 3, got 0)',
                                                  'cause': None,
                                                  'context': None,
                                                  'suppress_context': False}},
 'transform_product_info/only_count/argument': {'list': [{'bool': 'True'}, {'bool': 'True'}]},
 'transform_product_info/too_few_files': {'raised': {'type': 'builtins.ValueError',
                                                     'args': {'tuple': [{'str': "'not enough "
                                                                                'values to unpack '
                                                                                '(expected at '
                                                                                'least 3, got '
                                                                                "2)'"}]},
                                                     'str': 'not enough values to unpack (expected '
                                                            'at least 3, got 2)',
                                                     'cause': None,
                                                     'context': None,
                                                     'suppress_context': False}},
 'transform_product_info/too_few_files/argument': {'list': [{'bool': 'True'}, {'bool': 'True'}]},
 'transform_product_info/shape_lines_first': {'returned': {'Group': {'path': {'str': "'product_info'"},
                                                                     'url': {'NoneType': 'None'},
                                                                     'data': {'dict:dict': [[{'str': "'shapes'"},
                                                                                             {'Group': {'path': {'str': "'product_info/shapes'"},
                                                                                                        'url': {'NoneType': 'None'},
                                                                                                        'data': {'dict:dict': []},
                                                                                                        'attrs': {'dict:dict': [[{'str': "'HH'"},
                                                                                                                                 {'tuple': [{'int': '8000'},
                                                                                                                                            {'int': '9000'}]}]]}}}]]},
                                                                     'attrs': {'dict:dict': []}}}},
 'transform_product_info/shape_lines_first/argument': {'list': [{'bool': 'True'},
                                                                {'bool': 'True'}]},
 'transform_product_info/shapes_interleaved_polarizations': {'returned': {'Group': {'path': {'str': "'product_info'"},
                                                                                    'url': {'NoneType': 'None'},
                                                                                    'data': {'dict:dict': [[{'str': "'shapes'"},
                                                                                                            {'Group': {'path': {'str': "'product_info/shapes'"},
                                                                                                                       'url': {'NoneType': 'None'},
                                                                                                                       'data': {'dict:dict': []},
                                                                                                                       'attrs': {'dict:dict': [[{'str': "'HH'"},
                                                                                                                                                {'tuple': [{'int': '1'},
                                                                                                                                                           {'int': '4'}]}],
                                                                                                                                               [{'str': "'HV'"},
                                                                                                                                                {'tuple': [{'int': '2'},
                                                                                                                                                           {'int': '3'}]}],
                                                                                                                                               [{'str': "'VV'"},
                                                                                                                                                {'tuple': [{'int': '5'},
                                                                                                                                                           {'int': '6'}]}]]}}}]]},
                                                                                    'attrs': {'dict:dict': []}}}},
 'transform_product_info/shapes_interleaved_polarizations/argument': {'list': [{'bool': 'True'},
                                                                               {'bool': 'True'}]},
 'transform_product_info/shape_extra_underscores': {'returned': {'Group': {'path': {'str': "'product_info'"},
                                                                           'url': {'NoneType': 'None'},
                                                                           'data': {'dict:dict': [[{'str': "'shapes'"},
                                                                                                   {'Group': {'path': {'str': "'product_info/shapes'"},
                                                                                                              'url': {'NoneType': 'None'},
                                                                                                              'data': {'dict:dict': []},
                                                                                                              'attrs': {'dict:dict': [[{'str': "'HH'"},
                                                                                                                                       {'tuple': [{'int': '3'},
                                                                                                                                                  {'int': '4'}]}]]}}}]]},
                                                                           'attrs': {'dict:dict': []}}}},
 'transform_product_info/shape_extra_underscores/argument': {'list': [{'bool': 'True'},
                                                                      {'bool': 'True'}]},
 'transform_product_info/shape_extra_underscores_last_wins': {'returned': {'Group': {'path': {'str': "'product_info'"},
                                                                                     'url': {'NoneType': 'None'},
                                                                                     'data': {'dict:dict': [[{'str': "'shapes'"},
                                                                                                             {'Group': {'path': {'str': "'product_info/shapes'"},
                                                                                                                        'url': {'NoneType': 'None'},
                                                                                                                        'data': {'dict:dict': []},
                                                                                                                        'attrs': {'dict:dict': [[{'str': "'HH'"},
                                                                                                                                                 {'tuple': [{'int': '1'},
                                                                                                                                                            {'int': '2'}]}]]}}}]]},
                                                                                     'attrs': {'dict:dict': []}}}},
 'transform_product_info/shape_extra_underscores_last_wins/argument': {'list': [{'bool': 'True'},
                                                                                {'bool': 'True'}]},
 'transform_product_info/shape_suffixed_names': {'returned': {'Group': {'path': {'str': "'product_info'"},
                                                                        'url': {'NoneType': 'None'},
                                                                        'data': {'dict:dict': [[{'str': "'shapes'"},
                                                                                                {'Group': {'path': {'str': "'product_info/shapes'"},
                                                                                                           'url': {'NoneType': 'None'},
                                                                                                           'data': {'dict:dict': []},
                                                                                                           'attrs': {'dict:dict': [[{'str': "'HH'"},
                                                                                                                                    {'tuple': [{'int': '3'},
                                                                                                                                               {'int': '2'}]}]]}}}]]},
                                                                        'attrs': {'dict:dict': []}}}},
 'transform_product_info/shape_suffixed_names/argument': {'list': [{'bool': 'True'},
                                                                   {'bool': 'True'}]},
 'transform_product_info/shape_empty_polarization': {'returned': {'Group': {'path': {'str': "'product_info'"},
                                                                            'url': {'NoneType': 'None'},
                                                                            'data': {'dict:dict': [[{'str': "'shapes'"},
                                                                                                    {'Group': {'path': {'str': "'product_info/shapes'"},
                                                                                                               'url': {'NoneType': 'None'},
                                                                                                               'data': {'dict:dict': []},
                                                                                                               'attrs': {'dict:dict': [[{'str': "''"},
                                                                                                                                        {'tuple': [{'int': '1'},
                                                                                                                                                   {'int': '2'}]}]]}}}]]},
                                                                            'attrs': {'dict:dict': []}}}},
 'transform_product_info/shape_empty_polarization/argument': {'list': [{'bool': 'True'},
                                                                       {'bool': 'True'}]},
 'transform_product_info/shape_whitespace_numbers': {'returned': {'Group': {'path': {'str': "'product_info'"},
                                                                            'url': {'NoneType': 'None'},
                                                                            'data': {'dict:dict': [[{'str': "'shapes'"},
                                                                                                    {'Group': {'path': {'str': "'product_info/shapes'"},
                                                                                                               'url': {'NoneType': 'None'},
                                                                                                               'data': {'dict:dict': []},
                                                                                                               'attrs': {'dict:dict': [[{'str': "'HH'"},
                                                                                                                                        {'tuple': [{'int': '12'},
                                                                                                                                                   {'int': '3'}]}]]}}}]]},
                                                                            'attrs': {'dict:dict': []}}}},
 'transform_product_info/shape_whitespace_numbers/argument': {'list': [{'bool': 'True'},
                                                                       {'bool': 'True'}]},
 'transform_product_info/shape_underscore_numbers': {'returned': {'Group': {'path': {'str': "'product_info'"},
                                                                            'url': {'NoneType': 'None'},
                                                                            'data': {'dict:dict': [[{'str': "'shapes'"},
                                                                                                    {'Group': {'path': {'str': "'product_info/shapes'"},
                                                                                                               'url': {'NoneType': 'None'},
                                                                                                               'data': {'dict:dict': []},
                                                                                                               'attrs': {'dict:dict': [[{'str': "'HH'"},
                                                                                                                                        {'tuple': [{'int': '1000'},
                                                                                                                                                   {'int': '0'}]}]]}}}]]},
                                                                            'attrs': {'dict:dict': []}}}},
 'transform_product_info/shape_underscore_numbers/argument': {'list': [{'bool': 'True'},
                                                                       {'bool': 'True'}]},
 'transform_product_info/shape_without_polarization': {'raised': {'type': 'builtins.StopIteration',
                                                                  'args': {'tuple': []},
                                                                  'str': '',
                                                                  'cause': None,
                                                                  'context': None,
                                                                  'suppress_context': False}},
 'transform_product_info/shape_without_polarization/argument': {'list': [{'bool': 'True'},
                                                                         {'bool': 'True'}]},
 'transform_product_info/shape_without_polarization_after_valid': {'raised': {'type': 'builtins.StopIteration',
                                                                              'args': {'tuple': []},
                                                                              'str': '',
                                                                              'cause': None,
                                                                              'context': None,
                                                                              'suppress_context': False}},
 'transform_product_info/shape_without_polarization_after_valid/argument': {'list': [{'bool': 'True'},
                                                                                     {'bool': 'True'}]},
 'transform_product_info/shape_missing_lines': {'raised': {'type': 'builtins.KeyError',
                                                           'args': {'tuple': [{'str': "'NoOfLines'"}]},
                                                           'str': "'NoOfLines'",
                                                           'cause': None,
                                                           'context': {'type': 'builtins.TypeError',
                                                                       'args': {'tuple': [{'str': '"unhashable '
                                                                                                  'type: '
                                                                                                  '\'list\'"'}]},
                                                                       'str': 'unhashable type: '
                                                                              "'list'",
                                                                       'cause': None,
                                                                       'context': None,
                                                                       'suppress_context': False},
                                                           'suppress_context': False}},
 'transform_product_info/shape_missing_lines/argument': {'list': [{'bool': 'True'},
                                                                  {'bool': 'True'}]},
 'transform_product_info/shape_missing_pixels': {'raised': {'type': 'builtins.KeyError',
                                                            'args': {'tuple': [{'str': "'NoOfPixels'"}]},
                                                            'str': "'NoOfPixels'",
                                                            'cause': None,
                                                            'context': {'type': 'builtins.TypeError',
                                                                        'args': {'tuple': [{'str': '"unhashable '
                                                                                                   'type: '
                                                                                                   '\'list\'"'}]},
                                                                        'str': 'unhashable type: '
                                                                               "'list'",
                                                                        'cause': None,
                                                                        'context': None,
                                                                        'suppress_context': False},
                                                            'suppress_context': False}},
 'transform_product_info/shape_missing_pixels/argument': {'list': [{'bool': 'True'},
                                                                   {'bool': 'True'}]},
 'transform_product_info/shape_missing_pixels_bad_lines': {'raised': {'type': 'builtins.KeyError',
                                                                      'args': {'tuple': [{'str': "'NoOfPixels'"}]},
                                                                      'str': "'NoOfPixels'",
                                                                      'cause': None,
                                                                      'context': {'type': 'builtins.TypeError',
                                                                                  'args': {'tuple': [{'str': '"unhashable '
                                                                                                             'type: '
                                                                                                             '\'list\'"'}]},
                                                                                  'str': 'unhashable '
                                                                                         'type: '
                                                                                         "'list'",
                                                                                  'cause': None,
                                                                                  'context': None,
                                                                                  'suppress_context': False},
                                                                      'suppress_context': False}},
 'transform_product_info/shape_missing_pixels_bad_lines/argument': {'list': [{'bool': 'True'},
                                                                             {'bool': 'True'}]},
 'transform_product_info/shape_missing_lines_bad_pixels': {'raised': {'type': 'builtins.KeyError',
                                                                      'args': {'tuple': [{'str': "'NoOfLines'"}]},
                                                                      'str': "'NoOfLines'",
                                                                      'cause': None,
                                                                      'context': {'type': 'builtins.TypeError',
                                                                                  'args': {'tuple': [{'str': '"unhashable '
                                                                                                             'type: '
                                                                                                             '\'list\'"'}]},
                                                                                  'str': 'unhashable '
                                                                                         'type: '
                                                                                         "'list'",
                                                                                  'cause': None,
                                                                                  'context': None,
                                                                                  'suppress_context': False},
                                                                      'suppress_context': False}},
 'transform_product_info/shape_missing_lines_bad_pixels/argument': {'list': [{'bool': 'True'},
                                                                             {'bool': 'True'}]},
 'transform_product_info/shape_missing_in_second': {'raised': {'type': 'builtins.KeyError',
                                                               'args': {'tuple': [{'str': "'NoOfLines'"}]},
                                                               'str': "'NoOfLines'",
                                                               'cause': None,
                                                               'context': {'type': 'builtins.TypeError',
                                                                           'args': {'tuple': [{'str': '"unhashable '
                                                                                                      'type: '
                                                                                                      '\'list\'"'}]},
                                                                           'str': 'unhashable '
                                                                                  "type: 'list'",
                                                                           'cause': None,
                                                                           'context': None,
                                                                           'suppress_context': False},
                                                               'suppress_context': False}},
 'transform_product_info/shape_missing_in_second/argument': {'list': [{'bool': 'True'},
                                                                      {'bool': 'True'}]},
 'transform_product_info/shape_bad_pixels': {'raised': {'type': 'builtins.ValueError',
                                                        'args': {'tuple': [{'str': '"invalid '
                                                                                   'literal for '
                                                                                   'int() with '
                                                                                   'base 10: '
                                                                                   '\'1.5\'"'}]},
                                                        'str': 'invalid literal for int() with '
                                                               "base 10: '1.5'",
                                                        'cause': None,
                                                        'context': None,
                                                        'suppress_context': False}},
 'transform_product_info/shape_bad_pixels/argument': {'list': [{'bool': 'True'}, {'bool': 'True'}]},
 'transform_product_info/shape_bad_lines': {'raised': {'type': 'builtins.ValueError',
                                                       'args': {'tuple': [{'str': '"invalid '
                                                                                  'literal for '
                                                                                  'int() with base '
                                                                                  '10: \'\'"'}]},
                                                       'str': 'invalid literal for int() with base '
                                                              "10: ''",
                                                       'cause': None,
                                                       'context': None,
                                                       'suppress_context': False}},
 'transform_product_info/shape_bad_lines/argument': {'list': [{'bool': 'True'}, {'bool': 'True'}]},
 'transform_product_info/shape_both_bad': {'raised': {'type': 'builtins.ValueError',
                                                      'args': {'tuple': [{'str': '"invalid literal '
                                                                                 'for int() with '
                                                                                 'base 10: '
                                                                                 '\'a\'"'}]},
                                                      'str': 'invalid literal for int() with base '
                                                             "10: 'a'",
                                                      'cause': None,
                                                      'context': None,
                                                      'suppress_context': False}},
 'transform_product_info/shape_both_bad/argument': {'list': [{'bool': 'True'}, {'bool': 'True'}]},
 'transform_product_info/shape_bad_second_and_first': {'raised': {'type': 'builtins.ValueError',
                                                                  'args': {'tuple': [{'str': '"invalid '
                                                                                             'literal '
                                                                                             'for '
                                                                                             'int() '
                                                                                             'with '
                                                                                             'base '
                                                                                             '10: '
                                                                                             '\'a\'"'}]},
                                                                  'str': 'invalid literal for '
                                                                         "int() with base 10: 'a'",
                                                                  'cause': None,
                                                                  'context': None,
                                                                  'suppress_context': False}},
 'transform_product_info/shape_bad_second_and_first/argument': {'list': [{'bool': 'True'},
                                                                         {'bool': 'True'}]},
 'transform_product_info/bad_bitpixel': {'raised': {'type': 'builtins.ValueError',
                                                    'args': {'tuple': [{'str': '"invalid literal '
                                                                               'for int() with '
                                                                               'base 10: '
                                                                               '\'32.0\'"'}]},
                                                    'str': 'invalid literal for int() with base '
                                                           "10: '32.0'",
                                                    'cause': None,
                                                    'context': None,
                                                    'suppress_context': False}},
 'transform_product_info/bad_bitpixel/argument': {'list': [{'bool': 'True'}, {'bool': 'True'}]},
 'transform_product_info/bad_data_size': {'raised': {'type': 'builtins.ValueError',
                                                     'args': {'tuple': [{'str': '"could not '
                                                                                'convert string to '
                                                                                'float: '
                                                                                '\'large\'"'}]},
                                                     'str': 'could not convert string to float: '
                                                            "'large'",
                                                     'cause': None,
                                                     'context': None,
                                                     'suppress_context': False}},
 'transform_product_info/bad_data_size/argument': {'list': [{'bool': 'True'}, {'bool': 'True'}]},
 'transform_product_info/bad_other_and_bad_shape': {'raised': {'type': 'builtins.ValueError',
                                                               'args': {'tuple': [{'str': '"invalid '
                                                                                          'literal '
                                                                                          'for '
                                                                                          'int() '
                                                                                          'with '
                                                                                          'base '
                                                                                          '10: '
                                                                                          '\'x\'"'}]},
                                                               'str': 'invalid literal for int() '
                                                                      "with base 10: 'x'",
                                                               'cause': None,
                                                               'context': None,
                                                               'suppress_context': False}},
 'transform_product_info/bad_other_and_bad_shape/argument': {'list': [{'bool': 'True'},
                                                                      {'bool': 'True'}]},
 'transform_product_info/bad_shape_and_bad_other': {'raised': {'type': 'builtins.ValueError',
                                                               'args': {'tuple': [{'str': '"invalid '
                                                                                          'literal '
                                                                                          'for '
                                                                                          'int() '
                                                                                          'with '
                                                                                          'base '
                                                                                          '10: '
                                                                                          '\'y\'"'}]},
                                                               'str': 'invalid literal for int() '
                                                                      "with base 10: 'y'",
                                                               'cause': None,
                                                               'context': None,
                                                               'suppress_context': False}},
 'transform_product_info/bad_shape_and_bad_other/argument': {'list': [{'bool': 'True'},
                                                                      {'bool': 'True'}]},
 'transform_product_info/bad_files_and_bad_other': {'raised': {'type': 'builtins.ValueError',
                                                               'args': {'tuple': [{'str': "'not "
                                                                                          'enough '
                                                                                          'values '
                                                                                          'to '
                                                                                          'unpack '
                                                                                          '(expected '
                                                                                          'at '
                                                                                          'least '
                                                                                          '3, got '
                                                                                          "1)'"}]},
                                                               'str': 'not enough values to unpack '
                                                                      '(expected at least 3, got '
                                                                      '1)',
                                                               'cause': None,
                                                               'context': None,
                                                               'suppress_context': False}},
 'transform_product_info/bad_files_and_bad_other/argument': {'list': [{'bool': 'True'},
                                                                      {'bool': 'True'}]},
 'transform_product_info/bad_other_and_bad_files': {'raised': {'type': 'builtins.ValueError',
                                                               'args': {'tuple': [{'str': '"invalid '
                                                                                          'literal '
                                                                                          'for '
                                                                                          'int() '
                                                                                          'with '
                                                                                          'base '
                                                                                          '10: '
                                                                                          '\'x\'"'}]},
                                                               'str': 'invalid literal for int() '
                                                                      "with base 10: 'x'",
                                                               'cause': None,
                                                               'context': None,
                                                               'suppress_context': False}},
 'transform_product_info/bad_other_and_bad_files/argument': {'list': [{'bool': 'True'},
                                                                      {'bool': 'True'}]},
 'transform_product_info/bad_shape_and_bad_files': {'raised': {'type': 'builtins.KeyError',
                                                               'args': {'tuple': [{'str': "'NoOfLines'"}]},
                                                               'str': "'NoOfLines'",
                                                               'cause': None,
                                                               'context': {'type': 'builtins.TypeError',
                                                                           'args': {'tuple': [{'str': '"unhashable '
                                                                                                      'type: '
                                                                                                      '\'list\'"'}]},
                                                                           'str': 'unhashable '
                                                                                  "type: 'list'",
                                                                           'cause': None,
                                                                           'context': None,
                                                                           'suppress_context': False},
                                                               'suppress_context': False}},
 'transform_product_info/bad_shape_and_bad_files/argument': {'list': [{'bool': 'True'},
                                                                      {'bool': 'True'}]},
 'transform_product_info/non_string_values': {'returned': {'Group': {'path': {'str': "'product_info'"},
                                                                     'url': {'NoneType': 'None'},
                                                                     'data': {'dict:dict': []},
                                                                     'attrs': {'dict:dict': [[{'str': "'BitPixel'"},
                                                                                              {'int': '32'}],
                                                                                             [{'str': "'ProductDataSize'"},
                                                                                              {'float': '1.0'}],
                                                                                             [{'str': "'ProductFormat'"},
                                                                                              {'NoneType': 'None'}]]}}}},
 'transform_product_info/non_string_values/argument': {'list': [{'bool': 'True'},
                                                                {'bool': 'True'}]},
 'transform_product_info/non_string_shape_values': {'returned': {'Group': {'path': {'str': "'product_info'"},
                                                                           'url': {'NoneType': 'None'},
                                                                           'data': {'dict:dict': [[{'str': "'shapes'"},
                                                                                                   {'Group': {'path': {'str': "'product_info/shapes'"},
                                                                                                              'url': {'NoneType': 'None'},
                                                                                                              'data': {'dict:dict': []},
                                                                                                              'attrs': {'dict:dict': [[{'str': "'HH'"},
                                                                                                                                       {'tuple': [{'int': '1'},
                                                                                                                                                  {'int': '1'}]}]]}}}]]},
                                                                           'attrs': {'dict:dict': []}}}},
 'transform_product_info/non_string_shape_values/argument': {'list': [{'bool': 'True'},
                                                                      {'bool': 'True'}]},
 'transform_product_info/none_shape_value': {'raised': {'type': 'builtins.TypeError',
                                                        'args': {'tuple': [{'str': '"int() '
                                                                                   'argument must '
                                                                                   'be a string, a '
                                                                                   'bytes-like '
                                                                                   'object or a '
                                                                                   'real number, '
                                                                                   'not '
                                                                                   '\'NoneType\'"'}]},
                                                        'str': 'int() argument must be a string, a '
                                                               'bytes-like object or a real '
                                                               "number, not 'NoneType'",
                                                        'cause': None,
                                                        'context': None,
                                                        'suppress_context': False}},
 'transform_product_info/none_shape_value/argument': {'list': [{'bool': 'True'}, {'bool': 'True'}]},
 'transform_product_info/non_string_key': {'raised': {'type': 'builtins.TypeError',
                                                      'args': {'tuple': [{'str': '"argument of '
                                                                                 "type 'int' is "
                                                                                 'not iterable"'}]},
                                                      'str': "argument of type 'int' is not "
                                                             'iterable',
                                                      'cause': None,
                                                      'context': None,
                                                      'suppress_context': False}},
 'transform_product_info/non_string_key/argument': {'list': [{'bool': 'True'}, {'bool': 'True'}]},
 'transform_product_info/tuple_key': {'raised': {'type': 'builtins.AttributeError',
                                                 'args': {'tuple': [{'str': '"\'tuple\' object has '
                                                                            'no attribute '
                                                                            '\'startswith\'"'}]},
                                                 'str': "'tuple' object has no attribute "
                                                        "'startswith'",
                                                 'cause': None,
                                                 'context': None,
                                                 'suppress_context': False}},
 'transform_product_info/tuple_key/argument': {'list': [{'bool': 'True'}, {'bool': 'True'}]},
 'transform_product_info/not_a_section/none': {'raised': {'type': 'builtins.AttributeError',
                                                          'args': {'tuple': [{'str': '"\'NoneType\' '
                                                                                     'object has '
                                                                                     'no attribute '
                                                                                     '\'items\'"'}]},
                                                          'str': "'NoneType' object has no "
                                                                 "attribute 'items'",
                                                          'cause': None,
                                                          'context': None,
                                                          'suppress_context': False}},
 'transform_product_info/not_a_section/list': {'raised': {'type': 'builtins.AttributeError',
                                                          'args': {'tuple': [{'str': '"\'list\' '
                                                                                     'object has '
                                                                                     'no attribute '
                                                                                     '\'items\'"'}]},
                                                          'str': "'list' object has no attribute "
                                                                 "'items'",
                                                          'cause': None,
                                                          'context': None,
                                                          'suppress_context': False}},
 'transform_product_info/not_a_section/string': {'raised': {'type': 'builtins.AttributeError',
                                                            'args': {'tuple': [{'str': '"\'str\' '
                                                                                       'object has '
                                                                                       'no '
                                                                                       'attribute '
                                                                                       '\'items\'"'}]},
                                                            'str': "'str' object has no attribute "
                                                                   "'items'",
                                                            'cause': None,
                                                            'context': None,
                                                            'suppress_context': False}},
 'independent_results': {'list': [{'Group': {'path': {'str': "'product_info'"},
                                             'url': {'NoneType': 'None'},
                                             'data': {'dict:dict': [[{'str': "'data_files'"},
                                                                     {'Group': {'path': {'str': "'product_info/data_files'"},
                                                                                'url': {'NoneType': 'None'},
                                                                                'data': {'dict:dict': []},
                                                                                'attrs': {'dict:dict': [[{'str': "'volume_directory'"},
                                                                                                         {'str': "'VOL-ALOS2225333200-180726-WWDR1.1__D'"}],
                                                                                                        [{'str': "'sar_leader'"},
                                                                                                         {'str': "'LED-ALOS2225333200-180726-WWDR1.1__D'"}],
                                                                                                        [{'str': "'sar_imagery'"},
                                                                                                         {'list': [{'str': "'IMG-HH-ALOS2225333200-180726-WWDR1.1__D-F1'"},
                                                                                                                   {'str': "'IMG-HV-ALOS2225333200-180726-WWDR1.1__D-F1'"}]}],
                                                                                                        [{'str': "'sar_trailer'"},
                                                                                                         {'str': "'TRL-ALOS2225333200-180726-WWDR1.1__D'"}]]}}}],
                                                                    [{'str': "'shapes'"},
                                                                     {'Group': {'path': {'str': "'product_info/shapes'"},
                                                                                'url': {'NoneType': 'None'},
                                                                                'data': {'dict:dict': []},
                                                                                'attrs': {'dict:dict': [[{'str': "'HH'"},
                                                                                                         {'tuple': [{'int': '8000'},
                                                                                                                    {'int': '9000'}]}],
                                                                                                        [{'str': "'HV'"},
                                                                                                         {'tuple': [{'int': '8001'},
                                                                                                                    {'int': '9001'}]}]]}}}]]},
                                             'attrs': {'dict:dict': [[{'str': "'ProductFormat'"},
                                                                      {'str': "'CEOS'"}],
                                                                     [{'str': "'BitPixel'"},
                                                                      {'int': '32'}],
                                                                     [{'str': "'ProductDataSize'"},
                                                                      {'float': '798.2'}]]}}},
                                  {'bool': 'True'},
                                  {'bool': 'True'},
                                  {'bool': 'True'},
                                  {'bool': 'True'}]},
 'after_changing_the_input': {'Group': {'path': {'str': "'product_info'"},
                                        'url': {'NoneType': 'None'},
                                        'data': {'dict:dict': [[{'str': "'data_files'"},
                                                                {'Group': {'path': {'str': "'product_info/data_files'"},
                                                                           'url': {'NoneType': 'None'},
                                                                           'data': {'dict:dict': []},
                                                                           'attrs': {'dict:dict': [[{'str': "'volume_directory'"},
                                                                                                    {'str': "'VOL-ALOS2225333200-180726-WWDR1.1__D'"}],
                                                                                                   [{'str': "'sar_leader'"},
                                                                                                    {'str': "'LED-ALOS2225333200-180726-WWDR1.1__D'"}],
                                                                                                   [{'str': "'sar_imagery'"},
                                                                                                    {'list': [{'str': "'IMG-HH-ALOS2225333200-180726-WWDR1.1__D-F1'"},
                                                                                                              {'str': "'IMG-HV-ALOS2225333200-180726-WWDR1.1__D-F1'"}]}],
                                                                                                   [{'str': "'sar_trailer'"},
                                                                                                    {'str': "'TRL-ALOS2225333200-180726-WWDR1.1__D'"}]]}}}],
                                                               [{'str': "'shapes'"},
                                                                {'Group': {'path': {'str': "'product_info/shapes'"},
                                                                           'url': {'NoneType': 'None'},
                                                                           'data': {'dict:dict': []},
                                                                           'attrs': {'dict:dict': [[{'str': "'HH'"},
                                                                                                    {'tuple': [{'int': '8000'},
                                                                                                               {'int': '9000'}]}],
                                                                                                   [{'str': "'HV'"},
                                                                                                    {'tuple': [{'int': '8001'},
                                                                                                               {'int': '9001'}]}]]}}}]]},
                                        'attrs': {'dict:dict': [[{'str': "'ProductFormat'"},
                                                                 {'str': "'CEOS'"}],
                                                                [{'str': "'BitPixel'"},
                                                                 {'int': '64'}],
                                                                [{'str': "'ProductDataSize'"},
                                                                 {'float': '798.2'}]]}}},
 'transform_summary/all': {'returned': {'Group': {'path': {'str': "'summary'"},
                                                  'url': {'NoneType': 'None'},
                                                  'data': {'dict:dict': [[{'str': "'product_information'"},
                                                                          {'Group': {'path': {'str': "'summary/product_information'"},
                                                                                     'url': {'NoneType': 'None'},
                                                                                     'data': {'dict:dict': [[{'str': "'data_files'"},
                                                                                                             {'Group': {'path': {'str': "'summary/product_information/data_files'"},
                                                                                                                        'url': {'NoneType': 'None'},
                                                                                                                        'data': {'dict:dict': []},
                                                                                                                        'attrs': {'dict:dict': [[{'str': "'volume_directory'"},
                                                                                                                                                 {'str': "'VOL-ALOS2225333200-180726-WWDR1.1__D'"}],
                                                                                                                                                [{'str': "'sar_leader'"},
                                                                                                                                                 {'str': "'LED-ALOS2225333200-180726-WWDR1.1__D'"}],
                                                                                                                                                [{'str': "'sar_imagery'"},
                                                                                                                                                 {'list': [{'str': "'IMG-HH-ALOS2225333200-180726-WWDR1.1__D-F1'"},
                                                                                                                                                           {'str': "'IMG-HV-ALOS2225333200-180726-WWDR1.1__D-F1'"}]}],
                                                                                                                                                [{'str': "'sar_trailer'"},
                                                                                                                                                 {'str': "'TRL-ALOS2225333200-180726-WWDR1.1__D'"}]]}}}],
                                                                                                            [{'str': "'shapes'"},
                                                                                                             {'Group': {'path': {'str': "'summary/product_information/shapes'"},
                                                                                                                        'url': {'NoneType': 'None'},
                                                                                                                        'data': {'dict:dict': []},
                                                                                                                        'attrs': {'dict:dict': [[{'str': "'HH'"},
                                                                                                                                                 {'tuple': [{'int': '8000'},
                                                                                                                                                            {'int': '9000'}]}],
                                                                                                                                                [{'str': "'HV'"},
                                                                                                                                                 {'tuple': [{'int': '8001'},
                                                                                                                                                            {'int': '9001'}]}]]}}}]]},
                                                                                     'attrs': {'dict:dict': [[{'str': "'ProductFormat'"},
                                                                                                              {'str': "'CEOS'"}],
                                                                                                             [{'str': "'BitPixel'"},
                                                                                                              {'int': '32'}],
                                                                                                             [{'str': "'ProductDataSize'"},
                                                                                                              {'float': '798.2'}]]}}}],
                                                                         [{'str': "'result_information'"},
                                                                          {'Group': {'path': {'str': "'summary/result_information'"},
                                                                                     'url': {'NoneType': 'None'},
                                                                                     'data': {'dict:dict': []},
                                                                                     'attrs': {'dict:dict': [[{'str': "'a'"},
                                                                                                              {'str': "'b'"}]]}}}]]},
                                                  'attrs': {'dict:dict': []}}}},
 'transform_summary/all_interleaved': {'returned': {'Group': {'path': {'str': "'summary'"},
                                                              'url': {'NoneType': 'None'},
                                                              'data': {'dict:dict': [[{'str': "'product_information'"},
                                                                                      {'Group': {'path': {'str': "'summary/product_information'"},
                                                                                                 'url': {'NoneType': 'None'},
                                                                                                 'data': {'dict:dict': [[{'str': "'data_files'"},
                                                                                                                         {'Group': {'path': {'str': "'summary/product_information/data_files'"},
                                                                                                                                    'url': {'NoneType': 'None'},
                                                                                                                                    'data': {'dict:dict': []},
                                                                                                                                    'attrs': {'dict:dict': [[{'str': "'volume_directory'"},
                                                                                                                                                             {'str': "'VOL-ALOS2225333200-180726-WWDR1.1__D'"}],
                                                                                                                                                            [{'str': "'sar_leader'"},
                                                                                                                                                             {'str': "'LED-ALOS2225333200-180726-WWDR1.1__D'"}],
                                                                                                                                                            [{'str': "'sar_imagery'"},
                                                                                                                                                             {'list': [{'str': "'IMG-HH-ALOS2225333200-180726-WWDR1.1__D-F1'"},
                                                                                                                                                                       {'str': "'IMG-HV-ALOS2225333200-180726-WWDR1.1__D-F1'"}]}],
                                                                                                                                                            [{'str': "'sar_trailer'"},
                                                                                                                                                             {'str': "'TRL-ALOS2225333200-180726-WWDR1.1__D'"}]]}}}],
                                                                                                                        [{'str': "'shapes'"},
                                                                                                                         {'Group': {'path': {'str': "'summary/product_information/shapes'"},
                                                                                                                                    'url': {'NoneType': 'None'},
                                                                                                                                    'data': {'dict:dict': []},
                                                                                                                                    'attrs': {'dict:dict': [[{'str': "'HH'"},
                                                                                                                                                             {'tuple': [{'int': '8000'},
                                                                                                                                                                        {'int': '9000'}]}],
                                                                                                                                                            [{'str': "'HV'"},
                                                                                                                                                             {'tuple': [{'int': '8001'},
                                                                                                                                                                        {'int': '9001'}]}]]}}}]]},
                                                                                                 'attrs': {'dict:dict': [[{'str': "'ProductFormat'"},
                                                                                                                          {'str': "'CEOS'"}],
                                                                                                                         [{'str': "'BitPixel'"},
                                                                                                                          {'int': '32'}],
                                                                                                                         [{'str': "'ProductDataSize'"},
                                                                                                                          {'float': '798.2'}]]}}}],
                                                                                     [{'str': "'result_information'"},
                                                                                      {'Group': {'path': {'str': "'summary/result_information'"},
                                                                                                 'url': {'NoneType': 'None'},
                                                                                                 'data': {'dict:dict': []},
                                                                                                 'attrs': {'dict:dict': [[{'str': "'a'"},
                                                                                                                          {'str': "'b'"}]]}}}]]},
                                                              'attrs': {'dict:dict': []}}}},
 'transform_summary/only_other': {'returned': {'Group': {'path': {'str': "'summary'"},
                                                         'url': {'NoneType': 'None'},
                                                         'data': {'dict:dict': [[{'str': "'product_information'"},
                                                                                 {'Group': {'path': {'str': "'summary/product_information'"},
                                                                                            'url': {'NoneType': 'None'},
                                                                                            'data': {'dict:dict': []},
                                                                                            'attrs': {'dict:dict': [[{'str': "'ProductFormat'"},
                                                                                                                     {'str': "'CEOS'"}],
                                                                                                                    [{'str': "'BitPixel'"},
                                                                                                                     {'int': '32'}],
                                                                                                                    [{'str': "'ProductDataSize'"},
                                                                                                                     {'float': '798.2'}]]}}}],
                                                                                [{'str': "'result_information'"},
                                                                                 {'Group': {'path': {'str': "'summary/result_information'"},
                                                                                            'url': {'NoneType': 'None'},
                                                                                            'data': {'dict:dict': []},
                                                                                            'attrs': {'dict:dict': [[{'str': "'a'"},
                                                                                                                     {'str': "'b'"}]]}}}]]},
                                                         'attrs': {'dict:dict': []}}}},
 'transform_summary/empty': {'returned': {'Group': {'path': {'str': "'summary'"},
                                                    'url': {'NoneType': 'None'},
                                                    'data': {'dict:dict': [[{'str': "'product_information'"},
                                                                            {'Group': {'path': {'str': "'summary/product_information'"},
                                                                                       'url': {'NoneType': 'None'},
                                                                                       'data': {'dict:dict': []},
                                                                                       'attrs': {'dict:dict': []}}}],
                                                                           [{'str': "'result_information'"},
                                                                            {'Group': {'path': {'str': "'summary/result_information'"},
                                                                                       'url': {'NoneType': 'None'},
                                                                                       'data': {'dict:dict': []},
                                                                                       'attrs': {'dict:dict': [[{'str': "'a'"},
                                                                                                                {'str': "'b'"}]]}}}]]},
                                                    'attrs': {'dict:dict': []}}}},
 'transform_summary/shape_missing_lines': {'raised': {'type': 'builtins.KeyError',
                                                      'args': {'tuple': [{'str': "'NoOfLines'"}]},
                                                      'str': "'NoOfLines'",
                                                      'cause': None,
                                                      'context': {'type': 'builtins.TypeError',
                                                                  'args': {'tuple': [{'str': '"unhashable '
                                                                                             'type: '
                                                                                             '\'list\'"'}]},
                                                                  'str': "unhashable type: 'list'",
                                                                  'cause': None,
                                                                  'context': None,
                                                                  'suppress_context': False},
                                                      'suppress_context': False}},
 'open_summary/all': {'returned': {'Group': {'path': {'str': "'summary'"},
                                             'url': {'NoneType': 'None'},
                                             'data': {'dict:dict': [[{'str': "'product_information'"},
                                                                     {'Group': {'path': {'str': "'summary/product_information'"},
                                                                                'url': {'NoneType': 'None'},
                                                                                'data': {'dict:dict': [[{'str': "'data_files'"},
                                                                                                        {'Group': {'path': {'str': "'summary/product_information/data_files'"},
                                                                                                                   'url': {'NoneType': 'None'},
                                                                                                                   'data': {'dict:dict': []},
                                                                                                                   'attrs': {'dict:dict': [[{'str': "'volume_directory'"},
                                                                                                                                            {'str': "'VOL-ALOS2225333200-180726-WWDR1.1__D'"}],
                                                                                                                                           [{'str': "'sar_leader'"},
                                                                                                                                            {'str': "'LED-ALOS2225333200-180726-WWDR1.1__D'"}],
                                                                                                                                           [{'str': "'sar_imagery'"},
                                                                                                                                            {'list': [{'str': "'IMG-HH-ALOS2225333200-180726-WWDR1.1__D-F1'"},
                                                                                                                                                      {'str': "'IMG-HV-ALOS2225333200-180726-WWDR1.1__D-F1'"}]}],
                                                                                                                                           [{'str': "'sar_trailer'"},
                                                                                                                                            {'str': "'TRL-ALOS2225333200-180726-WWDR1.1__D'"}]]}}}],
                                                                                                       [{'str': "'shapes'"},
                                                                                                        {'Group': {'path': {'str': "'summary/product_information/shapes'"},
                                                                                                                   'url': {'NoneType': 'None'},
                                                                                                                   'data': {'dict:dict': []},
                                                                                                                   'attrs': {'dict:dict': [[{'str': "'HH'"},
                                                                                                                                            {'tuple': [{'int': '8000'},
                                                                                                                                                       {'int': '9000'}]}],
                                                                                                                                           [{'str': "'HV'"},
                                                                                                                                            {'tuple': [{'int': '8001'},
                                                                                                                                                       {'int': '9001'}]}]]}}}]]},
                                                                                'attrs': {'dict:dict': [[{'str': "'ProductFormat'"},
                                                                                                         {'str': "'CEOS'"}],
                                                                                                        [{'str': "'BitPixel'"},
                                                                                                         {'int': '32'}],
                                                                                                        [{'str': "'ProductDataSize'"},
                                                                                                         {'float': '798.2'}]]}}}]]},
                                             'attrs': {'dict:dict': []}}}},
 'open_summary/all_shapes_first': {'returned': {'Group': {'path': {'str': "'summary'"},
                                                          'url': {'NoneType': 'None'},
                                                          'data': {'dict:dict': [[{'str': "'product_information'"},
                                                                                  {'Group': {'path': {'str': "'summary/product_information'"},
                                                                                             'url': {'NoneType': 'None'},
                                                                                             'data': {'dict:dict': [[{'str': "'shapes'"},
                                                                                                                     {'Group': {'path': {'str': "'summary/product_information/shapes'"},
                                                                                                                                'url': {'NoneType': 'None'},
                                                                                                                                'data': {'dict:dict': []},
                                                                                                                                'attrs': {'dict:dict': [[{'str': "'HH'"},
                                                                                                                                                         {'tuple': [{'int': '8000'},
                                                                                                                                                                    {'int': '9000'}]}],
                                                                                                                                                        [{'str': "'HV'"},
                                                                                                                                                         {'tuple': [{'int': '8001'},
                                                                                                                                                                    {'int': '9001'}]}]]}}}],
                                                                                                                    [{'str': "'data_files'"},
                                                                                                                     {'Group': {'path': {'str': "'summary/product_information/data_files'"},
                                                                                                                                'url': {'NoneType': 'None'},
                                                                                                                                'data': {'dict:dict': []},
                                                                                                                                'attrs': {'dict:dict': [[{'str': "'volume_directory'"},
                                                                                                                                                         {'str': "'VOL-ALOS2225333200-180726-WWDR1.1__D'"}],
                                                                                                                                                        [{'str': "'sar_leader'"},
                                                                                                                                                         {'str': "'LED-ALOS2225333200-180726-WWDR1.1__D'"}],
                                                                                                                                                        [{'str': "'sar_imagery'"},
                                                                                                                                                         {'list': [{'str': "'IMG-HH-ALOS2225333200-180726-WWDR1.1__D-F1'"},
                                                                                                                                                                   {'str': "'IMG-HV-ALOS2225333200-180726-WWDR1.1__D-F1'"}]}],
                                                                                                                                                        [{'str': "'sar_trailer'"},
                                                                                                                                                         {'str': "'TRL-ALOS2225333200-180726-WWDR1.1__D'"}]]}}}]]},
                                                                                             'attrs': {'dict:dict': [[{'str': "'ProductFormat'"},
                                                                                                                      {'str': "'CEOS'"}],
                                                                                                                     [{'str': "'BitPixel'"},
                                                                                                                      {'int': '32'}],
                                                                                                                     [{'str': "'ProductDataSize'"},
                                                                                                                      {'float': '798.2'}]]}}}]]},
                                                          'attrs': {'dict:dict': []}}}},
 'open_summary/count_in_the_middle': {'returned': {'Group': {'path': {'str': "'summary'"},
                                                             'url': {'NoneType': 'None'},
                                                             'data': {'dict:dict': [[{'str': "'product_information'"},
                                                                                     {'Group': {'path': {'str': "'summary/product_information'"},
                                                                                                'url': {'NoneType': 'None'},
                                                                                                'data': {'dict:dict': [[{'str': "'data_files'"},
                                                                                                                        {'Group': {'path': {'str': "'summary/product_information/data_files'"},
                                                                                                                                   'url': {'NoneType': 'None'},
                                                                                                                                   'data': {'dict:dict': []},
                                                                                                                                   'attrs': {'dict:dict': [[{'str': "'volume_directory'"},
                                                                                                                                                            {'str': "'a'"}],
                                                                                                                                                           [{'str': "'sar_leader'"},
                                                                                                                                                            {'str': "'b'"}],
                                                                                                                                                           [{'str': "'sar_imagery'"},
                                                                                                                                                            {'list': [{'str': "'c'"}]}],
                                                                                                                                                           [{'str': "'sar_trailer'"},
                                                                                                                                                            {'str': "'d'"}]]}}}]]},
                                                                                                'attrs': {'dict:dict': []}}}]]},
                                                             'attrs': {'dict:dict': []}}}},
 'open_summary/shape_extra_underscores': {'returned': {'Group': {'path': {'str': "'summary'"},
                                                                 'url': {'NoneType': 'None'},
                                                                 'data': {'dict:dict': [[{'str': "'product_information'"},
                                                                                         {'Group': {'path': {'str': "'summary/product_information'"},
                                                                                                    'url': {'NoneType': 'None'},
                                                                                                    'data': {'dict:dict': [[{'str': "'shapes'"},
                                                                                                                            {'Group': {'path': {'str': "'summary/product_information/shapes'"},
                                                                                                                                       'url': {'NoneType': 'None'},
                                                                                                                                       'data': {'dict:dict': []},
                                                                                                                                       'attrs': {'dict:dict': [[{'str': "'HH'"},
                                                                                                                                                                {'tuple': [{'int': '3'},
                                                                                                                                                                           {'int': '4'}]}]]}}}]]},
                                                                                                    'attrs': {'dict:dict': []}}}]]},
                                                                 'attrs': {'dict:dict': []}}}},
 'open_summary/shape_without_polarization': {'raised': {'type': 'builtins.StopIteration',
                                                        'args': {'tuple': []},
                                                        'str': '',
                                                        'cause': None,
                                                        'context': None,
                                                        'suppress_context': False}},
 'open_summary/too_few_files': {'raised': {'type': 'builtins.ValueError',
                                           'args': {'tuple': [{'str': "'not enough values to "
                                                                      'unpack (expected at least '
                                                                      "3, got 2)'"}]},
                                           'str': 'not enough values to unpack (expected at least '
                                                  '3, got 2)',
                                           'cause': None,
                                           'context': None,
                                           'suppress_context': False}},
 'open_summary/bad_other_and_bad_shape': {'raised': {'type': 'builtins.ValueError',
                                                     'args': {'tuple': [{'str': '"invalid literal '
                                                                                'for int() with '
                                                                                'base 10: '
                                                                                '\'x\'"'}]},
                                                     'str': 'invalid literal for int() with base '
                                                            "10: 'x'",
                                                     'cause': None,
                                                     'context': None,
                                                     'suppress_context': False}},
 'categorize_filenames/normal': {'returned': {'dict:dict': [[{'str': "'volume_directory'"},
                                                             {'str': "'vd'"}],
                                                            [{'str': "'sar_leader'"},
                                                             {'str': "'l'"}],
                                                            [{'str': "'sar_imagery'"},
                                                             {'list': [{'str': "'im1'"},
                                                                       {'str': "'im2'"}]}],
                                                            [{'str': "'sar_trailer'"},
                                                             {'str': "'tr'"}]]}},
 'categorize_filenames/no_images': {'returned': {'dict:dict': [[{'str': "'volume_directory'"},
                                                                {'str': "'vd'"}],
                                                               [{'str': "'sar_leader'"},
                                                                {'str': "'l'"}],
                                                               [{'str': "'sar_imagery'"},
                                                                {'list': []}],
                                                               [{'str': "'sar_trailer'"},
                                                                {'str': "'tr'"}]]}},
 'categorize_filenames/short': {'raised': {'type': 'builtins.ValueError',
                                           'args': {'tuple': [{'str': "'not enough values to "
                                                                      'unpack (expected at least '
                                                                      "3, got 2)'"}]},
                                           'str': 'not enough values to unpack (expected at least '
                                                  '3, got 2)',
                                           'cause': None,
                                           'context': None,
                                           'suppress_context': False}},
 'categorize_filenames/empty': {'raised': {'type': 'builtins.ValueError',
                                           'args': {'tuple': [{'str': "'not enough values to "
                                                                      'unpack (expected at least '
                                                                      "3, got 0)'"}]},
                                           'str': 'not enough values to unpack (expected at least '
                                                  '3, got 0)',
                                           'cause': None,
                                           'context': None,
                                           'suppress_context': False}}}


def compare():
    actual = collect()
    assert list(actual) == list(EXPECTED), "different set of cases"
    different = [name for name in actual if actual[name] != EXPECTED[name]]
    for name in different:
        print(f"MISMATCH {name}:\n  expected: {EXPECTED[name]}\n  actual:   {actual[name]}")
    return different, len(actual)


def test_equivalence():
    different, _ = compare()
    assert not different


if __name__ == "__main__":
    different, n_cases = compare()
    if different:
        print(f"FAILED: {len(different)} of {n_cases} cases differ")
        sys.exit(1)
    print(f"OK: {n_cases} cases identical to the recorded behaviour")
