"""Equivalence check for refactoring 3 (blank handling of the ascii datatypes and the
reference date lookup of `DatetimeYdus`).

Run as a script (`python equiv.py`) or through pytest. The expected observations
were recorded from the unchanged code with `python equiv.py --record`.
"""

import datetime
import io
import pathlib
import pprint
import sys

import construct
from construct import Adapter, Int8ub, Int32ub, Int64ub, Struct, this

from ceos_alos2 import datatypes

def canon(value):
    if isinstance(value, dict):
        items = ", ".join(f"{k}={canon(v)}" for k, v in value.items() if k != "_io")
        return f"{type(value).__name__}({items})"
    if isinstance(value, (list, tuple)):
        return f"{type(value).__name__}[{', '.join(canon(v) for v in value)}]"
    return f"{type(value).__name__}:{value!r}"


def outcome(func, *args, **kwargs):
    try:
        result = func(*args, **kwargs)
    except BaseException as e:  # noqa: B902
        return (
            f"raise {type(e).__module__}.{type(e).__qualname__} args={e.args!r} str={str(e)!r}"
            f" cause={type(e.__cause__).__name__} context={type(e.__context__).__name__}"
            f" suppress={e.__suppress_context__}"
        )
    return "ok " + canon(result)


class Text(str):
    """str that records which of its methods the decoders use"""

    calls = []

    def strip(self, *args):
        type(self).calls.append(("strip", args))
        return super().strip(*args)


class Weird:
    """not text at all: strip() decides what is parsed"""

    def __init__(self, stripped):
        self.stripped = stripped

    def strip(self):
        return self.stripped


class Falsy:
    """an object that is false but not empty text"""

    def __init__(self):
        self.calls = []

    def __bool__(self):
        self.calls.append("bool")
        return False

    def __int__(self):
        self.calls.append("int")
        return 7

    def __float__(self):
        self.calls.append("float")
        return 7.5


def describe_subcon(instance):
    subcon = instance.subcon
    return [type(subcon).__name__, subcon.sizeof(), getattr(subcon, "encoding", None)]


INT_FIELDS = [
    (2, b"15"),
    (4, b"3989"),
    (4, b"  16"),
    (4, b"16  "),
    (4, b" 16 "),
    (4, b"    "),
    (4, b"\x00\x00\x00\x00"),
    (4, b"12\x00\x00"),
    (4, b"\x0012 "),
    (4, b"1 2 "),
    (4, b"  -5"),
    (4, b"  +7"),
    (4, b"-  5"),
    (4, b"1_00"),
    (4, b"_100"),
    (4, b"0x1f"),
    (4, b"007 "),
    (4, b"0000"),
    (4, b"  -0"),
    (4, b"\t12\n"),
    (4, b"\t\n\r "),
    (4, b"\x0b\x0c  "),
    (4, b"\x1c\x1d\x1e\x1f"),
    (4, b"1.5 "),
    (4, b"1e3 "),
    (4, b"abc "),
    (4, b"nan "),
    (4, b"    1"),
    (4, b"123"),
    (4, b""),
    (4, b"12\xff4"),
    (4, b"\xe9   "),
    (0, b""),
    (0, b"12"),
    (1, b" "),
    (1, b"7"),
    (16, b"    123456789012"),
    (16, b"99999999999999999999"[:16]),
    (8, b"\x00\x00\x00\x00  42"),
]

FLOAT_FIELDS = [
    (8, b"1558.423"),
    (8, b" 165.820"),
    (8, b"165.82  "),
    (8, b"        "),
    (8, b"\x00" * 8),
    (8, b"1.5\x00\x00\x00\x00\x00"),
    (16, b"162436598487.832"),
    (16, b"     6598487.832"),
    (8, b"     nan"),
    (8, b"    -nan"),
    (8, b"     NaN"),
    (8, b"     inf"),
    (8, b"-INFINITY"[:8]),
    (8, b"    -inf"),
    (8, b"  1.5e10"),
    (8, b" 1.5E-10"),
    (8, b"   1e400"),
    (8, b"  1e-400"),
    (8, b"      .5"),
    (8, b"      5."),
    (8, b"      -0"),
    (8, b"     1_0"),
    (8, b"     1,5"),
    (8, b"   1.5.2"),
    (8, b"   1 5  "),
    (8, b"  0x1p-2"),
    (8, b"     abc"),
    (8, b"       -"),
    (8, b"\t\n 2.5\r "),
    (8, b"\t\n\r\x0b\x0c   "),
    (8, b"1234567"),
    (8, b"\xff       "),
    (0, b""),
    (1, b" "),
    (1, b"3"),
]

STRING_FIELDS = [
    (4, b"ALOS"),
    (4, b"abc "),
    (4, b" abc"),
    (4, b"    "),
    (4, b"a b "),
    (4, b"\x00\x00\x00\x00"),
    (4, b"ab\x00\x00"),
    (4, b"\x00ab "),
    (4, b"\tab\n"),
    (4, b"ab"),
    (4, b"\xffabc"),
    (0, b""),
    (12, b"CEOS-SAR    "),
    (2, b"A "),
]

COMPLEX_FIELDS = [
    (8, b"1.558.42"),
    (8, b"        "),
    (8, b"1.5     "),
    (8, b"    2.5 "),
    (16, b"162.3659487.8321"),
    (16, b" 62.3659 87.8321"),
    (16, b"     nan     inf"),
    (16, b"     abc 87.8321"),
    (16, b" 62.3659     abc"),
    (9, b"1.552.5 x"),
    (8, b"1.55"),
    (0, b""),
]


def observe():
    obs = {}

    # --- construction ------------------------------------------------------
    for name in ["AsciiInteger", "AsciiFloat", "PaddedString"]:
        cls = getattr(datatypes, name)
        for n_bytes in [0, 1, 4, 16, 260]:
            obs[f"{name}({n_bytes}) subcon"] = outcome(lambda: describe_subcon(cls(n_bytes)))
            obs[f"{name}({n_bytes}) sizeof"] = outcome(lambda: cls(n_bytes).sizeof())
        for label, n_bytes in [("-1", -1), ("'4'", "4"), ("None", None), ("2.0", 2.0)]:
            obs[f"{name}({label}) construction"] = outcome(lambda: type(cls(n_bytes)).__name__)
            obs[f"{name}({label}) parse"] = outcome(lambda: cls(n_bytes).parse(b"12  "))
            obs[f"{name}({label}) sizeof"] = outcome(lambda: cls(n_bytes).sizeof())
        obs[f"{name}(this.n) parse"] = outcome(
            Struct("n" / Int8ub, "value" / cls(this.n)).parse, b"\x03 42 rest"
        )
        obs[f"{name}() construction"] = outcome(cls)
        obs[f"{name}(n_bytes=2) parse"] = outcome(lambda: cls(n_bytes=2).parse(b"7 "))
        obs[f"{name} identity"] = canon([cls.__name__, cls.__qualname__, cls.__module__])
        obs[f"{name} mro"] = canon([f"{c.__module__}.{c.__qualname__}" for c in cls.__mro__])
        a, b = cls(4), cls(4)
        obs[f"{name} instances have their own subcon"] = canon(a.subcon is not b.subcon)

    obs["PaddedString_ still importable"] = canon(
        datatypes.PaddedString_ is construct.PaddedString
    )

    # --- parsing -----------------------------------------------------------
    for n_bytes, data in INT_FIELDS:
        field = datatypes.AsciiInteger(n_bytes)
        obs[f"AsciiInteger({n_bytes}).parse({data!r})"] = outcome(field.parse, data)
    for n_bytes, data in FLOAT_FIELDS:
        field = datatypes.AsciiFloat(n_bytes)
        obs[f"AsciiFloat({n_bytes}).parse({data!r})"] = outcome(field.parse, data)
    for n_bytes, data in STRING_FIELDS:
        field = datatypes.PaddedString(n_bytes)
        obs[f"PaddedString({n_bytes}).parse({data!r})"] = outcome(field.parse, data)
    for n_bytes, data in COMPLEX_FIELDS:
        obs[f"AsciiComplex({n_bytes}).parse({data!r})"] = outcome(
            lambda: datatypes.AsciiComplex(n_bytes).parse(data)
        )

    # the error path of a field inside a record keeps the path of the field
    record = Struct(
        "count" / datatypes.AsciiInteger(4),
        "scale" / datatypes.AsciiFloat(8),
        "name" / datatypes.PaddedString(4),
        "inner" / Struct("value" / datatypes.AsciiInteger(2)),
    )
    for data in [
        b"  12    1.25ALOS 7",
        b"                  ",
        b"\x00" * 18,
        b"  x2    1.25ALOS 7",
        b"  12    1,25ALOS 7",
        b"  12    1.25ALOS x",
        b"  12    1.25ALOS",
        b"  12    1.25AL\xffS 7",
        b"  12  ",
    ]:
        obs[f"record.parse({data!r})"] = outcome(record.parse, data)
        stream = io.BytesIO(data + b"tail")
        obs[f"record.parse_stream({data!r})"] = outcome(record.parse_stream, stream)
        obs[f"record.parse_stream({data!r}) consumed"] = canon(stream.tell())

    # --- the decoders called directly -----------------------------------------
    integer = datatypes.AsciiInteger(4)
    floating = datatypes.AsciiFloat(4)
    string = datatypes.PaddedString(4)
    values = {
        "' 12 '": " 12 ",
        "''": "",
        "'   '": "   ",
        "'\\u00a0\\u2003'": "  ",
        "'\\u00a012\\u2003'": " 12 ",
        "'\\u0661\\u0662'": "١٢",
        "'\\x00'": "\x00",
        "b' 12 '": b" 12 ",
        "b'   '": b"   ",
        "b''": b"",
        "bytearray(b' 3 ')": bytearray(b" 3 "),
        "12": 12,
        "None": None,
        "Weird('5')": Weird("5"),
        "Weird('')": Weird(""),
        "Weird(None)": Weird(None),
        "Weird(0)": Weird(0),
        "Weird(0.0)": Weird(0.0),
        "Weird(3)": Weird(3),
        "Weird(2.75)": Weird(2.75),
        "Weird([])": Weird([]),
        "Weird([1])": Weird([1]),
        "Weird(b'')": Weird(b""),
    }
    for label, value in values.items():
        obs[f"AsciiInteger._decode({label})"] = outcome(integer._decode, value, {}, "(parsing)")
        obs[f"AsciiFloat._decode({label})"] = outcome(floating._decode, value, {}, "(parsing)")
        obs[f"PaddedString._decode({label})"] = outcome(string._decode, value, {}, "(parsing)")

    for decoder_name, decoder in [("AsciiInteger", integer), ("AsciiFloat", floating)]:
        falsy = Falsy()
        obs[f"{decoder_name}._decode(Weird(Falsy))"] = outcome(
            decoder._decode, Weird(falsy), None, None
        )
        obs[f"{decoder_name}._decode(Weird(Falsy)) protocol"] = canon(falsy.calls)

    for decoder_name, decoder in [
        ("AsciiInteger", integer),
        ("AsciiFloat", floating),
        ("PaddedString", string),
    ]:
        for text in [" 42 ", "    "]:
            Text.calls = []
            obs[f"{decoder_name}._decode(Text({text!r}))"] = outcome(
                decoder._decode, Text(text), None, None
            )
            obs[f"{decoder_name}._decode(Text({text!r})) calls"] = canon(Text.calls)

    blank1 = floating._decode("    ", None, None)
    blank2 = floating._decode("    ", None, None)
    obs["AsciiFloat blank is a float nan"] = canon([type(blank1).__name__, blank1 != blank1])
    obs["AsciiFloat blanks are plain floats"] = canon(type(blank2) is float)
    obs["AsciiInteger blank type"] = canon(type(integer._decode("  ", None, None)).__name__)
    obs["AsciiInteger value type"] = canon(type(integer._decode(" 1", None, None)).__name__)
    obs["AsciiInteger _decode arity"] = outcome(integer._decode, " 1")

    # --- DatetimeYdus ---------------------------------------------------------
    ref = datetime.datetime(2020, 5, 17, 13, 4, 5, 678)
    calls = []

    def from_context(context):
        calls.append(context)
        return context["date"]

    class CallableDate(datetime.datetime):
        """a datetime that happens to be callable: the call wins"""

        def __call__(self, context):
            calls.append("called")
            return datetime.datetime(1999, 12, 31, 23, 0)

    class NotADate:
        pass

    references = {
        "datetime": ref,
        "midnight": datetime.datetime(2020, 5, 17),
        "aware datetime": ref.replace(tzinfo=datetime.timezone.utc),
        "date": datetime.date(2020, 5, 17),
        "function": from_context,
        "this.date": this.date,
        "this.missing": this.missing,
        "lambda: date": lambda context: datetime.date(2021, 1, 1),
        "lambda: None": lambda context: None,
        "lambda: raises": lambda context: 1 / 0,
        "lambda: no args": lambda: ref,
        "callable datetime": CallableDate(2020, 5, 17, 1, 2, 3),
        "class": datetime.datetime,
        "None": None,
        "string": "2020-05-17",
        "not a date": NotADate(),
    }
    context = {"date": datetime.datetime(2018, 3, 4, 5, 6, 7)}
    microseconds = {
        "0": 0,
        "1": 1,
        "86399999999": 86_399_999_999,
        "86400000000": 86_400_000_000,
        "-1": -1,
        "1.5": 1.5,
        "2**62": 2**62,
        "None": None,
        "'1'": "1",
    }
    for ref_label, reference in references.items():
        adapter = datatypes.DatetimeYdus(Int64ub, reference)
        obs[f"DatetimeYdus[{ref_label}] keeps reference"] = canon(
            adapter.reference_date is reference
        )
        for us_label, value in microseconds.items():
            del calls[:]
            obs[f"DatetimeYdus[{ref_label}]._decode({us_label})"] = outcome(
                adapter._decode, value, context, "(parsing)"
            )
            obs[f"DatetimeYdus[{ref_label}]._decode({us_label}) calls"] = canon(
                [c if isinstance(c, str) else c is context for c in calls]
            )
        obs[f"DatetimeYdus[{ref_label}]._decode without context"] = outcome(
            adapter._decode, 5, None, None
        )
        obs[f"DatetimeYdus[{ref_label}].parse"] = outcome(
            adapter.parse, b"\x00\x00\x00\x00\x00\x0f\x42\x41", date=datetime.datetime(2001, 2, 3, 4)
        )
        obs[f"DatetimeYdus[{ref_label}].parse short"] = outcome(adapter.parse, b"\x00\x00")

    # reference replaced after construction is honoured on the next parse
    adapter = datatypes.DatetimeYdus(Int64ub, ref)
    obs["DatetimeYdus swapped: before"] = outcome(adapter.parse, b"\x00" * 7 + b"\x09")
    adapter.reference_date = lambda context: datetime.datetime(1990, 1, 2, 3)
    obs["DatetimeYdus swapped: after"] = outcome(adapter.parse, b"\x00" * 7 + b"\x09")
    obs["DatetimeYdus state"] = canon(sorted(vars(adapter)))
    obs["DatetimeYdus(base only)"] = outcome(datatypes.DatetimeYdus, Int64ub)
    obs["DatetimeYdus keywords"] = outcome(
        lambda: datatypes.DatetimeYdus(base=Int32ub, reference_date=ref).parse(b"\x00\x00\x00\x05")
    )

    record = Struct(
        "date"
        / datatypes.DatetimeYdms(
            Struct("year" / Int32ub, "day_of_year" / Int32ub, "milliseconds" / Int32ub)
        ),
        "precise" / datatypes.DatetimeYdus(Int64ub, this.date),
        "nested" / Struct("again" / datatypes.DatetimeYdus(Int64ub, this._.date)),
        "broken" / Struct("again" / datatypes.DatetimeYdus(Int8ub, this.date)),
    )
    raw = (
        b"\x00\x00\x07\xe4\x00\x00\x00\x3c\x00\x00\x30\x39"
        + b"\x00\x00\x00\x00\x00\x0f\x42\x41"
        + b"\x00\x00\x00\x14\x1d\xd7\x5f\xff"
        + b"\x01"
    )
    obs["datetime record"] = outcome(record.parse, raw)
    good = Struct(*record.subcons[:3])
    obs["datetime record (good part)"] = outcome(good.parse, raw)
    obs["datetime record (good part) embedded"] = outcome(
        Struct("skip" / Int8ub, "record" / good).parse, b"\x09" + raw
    )
    obs["datetime record without last"] = outcome(record.parse, raw[:-1])
    obs["datetime record truncated"] = outcome(record.parse, raw[:14])

    obs["is adapter"] = canon(
        [issubclass(getattr(datatypes, n), Adapter) for n in ["AsciiInteger", "DatetimeYdus"]]
    )
    obs["construct version"] = canon(construct.__version__)

    return obs


# --- recorded from the unchanged code -----------------------------------------
# EXPECTED-BEGIN
EXPECTED = {"AsciiComplex(0).parse(b'')": 'ok complex:(nan+nanj)',
 "AsciiComplex(16).parse(b'     abc 87.8321')": 'raise builtins.ValueError args=("could not '
                                                'convert string to float: \'abc\'",) str="could '
                                                'not convert string to float: \'abc\'" '
                                                'cause=NoneType context=NoneType suppress=False',
 "AsciiComplex(16).parse(b'     nan     inf')": 'ok complex:(nan+infj)',
 "AsciiComplex(16).parse(b' 62.3659     abc')": 'raise builtins.ValueError args=("could not '
                                                'convert string to float: \'abc\'",) str="could '
                                                'not convert string to float: \'abc\'" '
                                                'cause=NoneType context=NoneType suppress=False',
 "AsciiComplex(16).parse(b' 62.3659 87.8321')": 'ok complex:(62.3659+87.8321j)',
 "AsciiComplex(16).parse(b'162.3659487.8321')": 'ok complex:(162.3659+487.8321j)',
 "AsciiComplex(8).parse(b'        ')": 'ok complex:(nan+nanj)',
 "AsciiComplex(8).parse(b'    2.5 ')": 'ok complex:(nan+2.5j)',
 "AsciiComplex(8).parse(b'1.5     ')": 'ok complex:(nan+nanj)',
 "AsciiComplex(8).parse(b'1.55')": "raise construct.core.StreamError args=('Error in path "
                                   '(parsing) -> imaginary\\nstream read less than specified '
                                   "amount, expected 4, found 0',) str='Error in path (parsing) -> "
                                   'imaginary\\nstream read less than specified amount, expected '
                                   "4, found 0' cause=NoneType context=NoneType suppress=False",
 "AsciiComplex(8).parse(b'1.558.42')": 'ok complex:(1.55+8.42j)',
 "AsciiComplex(9).parse(b'1.552.5 x')": 'ok complex:(1.55+2.5j)',
 'AsciiFloat blank is a float nan': "list[str:'float', bool:True]",
 'AsciiFloat blanks are plain floats': 'bool:True',
 'AsciiFloat identity': "list[str:'AsciiFloat', str:'AsciiFloat', str:'ceos_alos2.datatypes']",
 'AsciiFloat instances have their own subcon': 'bool:True',
 'AsciiFloat mro': "list[str:'ceos_alos2.datatypes.AsciiFloat', str:'construct.core.Adapter', "
                   "str:'construct.core.Subconstruct', str:'construct.core.Construct', "
                   "str:'builtins.object']",
 "AsciiFloat('4') construction": "ok str:'AsciiFloat'",
 "AsciiFloat('4') parse": 'raise builtins.TypeError args=("\'<\' not supported between instances '
                          'of \'str\' and \'int\'",) str="\'<\' not supported between instances of '
                          '\'str\' and \'int\'" cause=NoneType context=NoneType suppress=False',
 "AsciiFloat('4') sizeof": 'raise builtins.TypeError args=("\'<\' not supported between instances '
                           'of \'str\' and \'int\'",) str="\'<\' not supported between instances '
                           'of \'str\' and \'int\'" cause=NoneType context=NoneType suppress=False',
 'AsciiFloat() construction': 'raise builtins.TypeError args=("AsciiFloat.__init__() missing 1 '
                              'required positional argument: \'n_bytes\'",) '
                              'str="AsciiFloat.__init__() missing 1 required positional argument: '
                              '\'n_bytes\'" cause=NoneType context=NoneType suppress=False',
 'AsciiFloat(-1) construction': "ok str:'AsciiFloat'",
 'AsciiFloat(-1) parse': "raise construct.core.PaddingError args=('Error in path "
                         "(parsing)\\nlength cannot be negative',) str='Error in path "
                         "(parsing)\\nlength cannot be negative' cause=NoneType context=NoneType "
                         'suppress=False',
 'AsciiFloat(-1) sizeof': "raise construct.core.PaddingError args=('Error in path "
                          "(sizeof)\\nlength cannot be negative',) str='Error in path "
                          "(sizeof)\\nlength cannot be negative' cause=NoneType context=NoneType "
                          'suppress=False',
 'AsciiFloat(0) sizeof': 'ok int:0',
 'AsciiFloat(0) subcon': "ok list[str:'StringEncoded', int:0, str:'ascii']",
 "AsciiFloat(0).parse(b'')": 'ok float:nan',
 'AsciiFloat(1) sizeof': 'ok int:1',
 'AsciiFloat(1) subcon': "ok list[str:'StringEncoded', int:1, str:'ascii']",
 "AsciiFloat(1).parse(b' ')": 'ok float:nan',
 "AsciiFloat(1).parse(b'3')": 'ok float:3.0',
 'AsciiFloat(16) sizeof': 'ok int:16',
 'AsciiFloat(16) subcon': "ok list[str:'StringEncoded', int:16, str:'ascii']",
 "AsciiFloat(16).parse(b'     6598487.832')": 'ok float:6598487.832',
 "AsciiFloat(16).parse(b'162436598487.832')": 'ok float:162436598487.832',
 'AsciiFloat(2.0) construction': "ok str:'AsciiFloat'",
 'AsciiFloat(2.0) parse': "raise construct.core.StreamError args=('Error in path "
                          "(parsing)\\nstream.read() failed, requested 2.0 bytes',) str='Error in "
                          "path (parsing)\\nstream.read() failed, requested 2.0 bytes' "
                          'cause=NoneType context=TypeError suppress=False',
 'AsciiFloat(2.0) sizeof': 'ok float:2.0',
 'AsciiFloat(260) sizeof': 'ok int:260',
 'AsciiFloat(260) subcon': "ok list[str:'StringEncoded', int:260, str:'ascii']",
 'AsciiFloat(4) sizeof': 'ok int:4',
 'AsciiFloat(4) subcon': "ok list[str:'StringEncoded', int:4, str:'ascii']",
 "AsciiFloat(8).parse(b'        ')": 'ok float:nan',
 "AsciiFloat(8).parse(b'       -')": 'raise builtins.ValueError args=("could not convert string to '
                                     'float: \'-\'",) str="could not convert string to float: '
                                     '\'-\'" cause=NoneType context=NoneType suppress=False',
 "AsciiFloat(8).parse(b'      -0')": 'ok float:-0.0',
 "AsciiFloat(8).parse(b'      .5')": 'ok float:0.5',
 "AsciiFloat(8).parse(b'      5.')": 'ok float:5.0',
 "AsciiFloat(8).parse(b'     1,5')": 'raise builtins.ValueError args=("could not convert string to '
                                     'float: \'1,5\'",) str="could not convert string to float: '
                                     '\'1,5\'" cause=NoneType context=NoneType suppress=False',
 "AsciiFloat(8).parse(b'     1_0')": 'ok float:10.0',
 "AsciiFloat(8).parse(b'     NaN')": 'ok float:nan',
 "AsciiFloat(8).parse(b'     abc')": 'raise builtins.ValueError args=("could not convert string to '
                                     'float: \'abc\'",) str="could not convert string to float: '
                                     '\'abc\'" cause=NoneType context=NoneType suppress=False',
 "AsciiFloat(8).parse(b'     inf')": 'ok float:inf',
 "AsciiFloat(8).parse(b'     nan')": 'ok float:nan',
 "AsciiFloat(8).parse(b'    -inf')": 'ok float:-inf',
 "AsciiFloat(8).parse(b'    -nan')": 'ok float:nan',
 "AsciiFloat(8).parse(b'   1 5  ')": 'raise builtins.ValueError args=("could not convert string to '
                                     'float: \'1 5\'",) str="could not convert string to float: '
                                     '\'1 5\'" cause=NoneType context=NoneType suppress=False',
 "AsciiFloat(8).parse(b'   1.5.2')": 'raise builtins.ValueError args=("could not convert string to '
                                     'float: \'1.5.2\'",) str="could not convert string to float: '
                                     '\'1.5.2\'" cause=NoneType context=NoneType suppress=False',
 "AsciiFloat(8).parse(b'   1e400')": 'ok float:inf',
 "AsciiFloat(8).parse(b'  0x1p-2')": 'raise builtins.ValueError args=("could not convert string to '
                                     'float: \'0x1p-2\'",) str="could not convert string to float: '
                                     '\'0x1p-2\'" cause=NoneType context=NoneType suppress=False',
 "AsciiFloat(8).parse(b'  1.5e10')": 'ok float:15000000000.0',
 "AsciiFloat(8).parse(b'  1e-400')": 'ok float:0.0',
 "AsciiFloat(8).parse(b' 1.5E-10')": 'ok float:1.5e-10',
 "AsciiFloat(8).parse(b' 165.820')": 'ok float:165.82',
 "AsciiFloat(8).parse(b'-INFINIT')": 'raise builtins.ValueError args=("could not convert string to '
                                     'float: \'-INFINIT\'",) str="could not convert string to '
                                     'float: \'-INFINIT\'" cause=NoneType context=NoneType '
                                     'suppress=False',
 "AsciiFloat(8).parse(b'1.5\\x00\\x00\\x00\\x00\\x00')": 'ok float:1.5',
 "AsciiFloat(8).parse(b'1234567')": "raise construct.core.StreamError args=('Error in path "
                                    '(parsing)\\nstream read less than specified amount, expected '
                                    "8, found 7',) str='Error in path (parsing)\\nstream read less "
                                    "than specified amount, expected 8, found 7' cause=NoneType "
                                    'context=NoneType suppress=False',
 "AsciiFloat(8).parse(b'1558.423')": 'ok float:1558.423',
 "AsciiFloat(8).parse(b'165.82  ')": 'ok float:165.82',
 "AsciiFloat(8).parse(b'\\t\\n 2.5\\r ')": 'ok float:2.5',
 "AsciiFloat(8).parse(b'\\t\\n\\r\\x0b\\x0c   ')": 'ok float:nan',
 "AsciiFloat(8).parse(b'\\x00\\x00\\x00\\x00\\x00\\x00\\x00\\x00')": 'ok float:nan',
 "AsciiFloat(8).parse(b'\\xff       ')": 'raise construct.core.StringError args=("cannot use '
                                         'encoding \'ascii\' to decode b\'\\\\xff       \'",) '
                                         'str="cannot use encoding \'ascii\' to decode '
                                         'b\'\\\\xff       \'" cause=NoneType '
                                         'context=UnicodeDecodeError suppress=False',
 'AsciiFloat(None) construction': "ok str:'AsciiFloat'",
 'AsciiFloat(None) parse': 'raise builtins.TypeError args=("\'<\' not supported between instances '
                           'of \'NoneType\' and \'int\'",) str="\'<\' not supported between '
                           'instances of \'NoneType\' and \'int\'" cause=NoneType context=NoneType '
                           'suppress=False',
 'AsciiFloat(None) sizeof': 'raise builtins.TypeError args=("\'<\' not supported between instances '
                            'of \'NoneType\' and \'int\'",) str="\'<\' not supported between '
                            'instances of \'NoneType\' and \'int\'" cause=NoneType '
                            'context=NoneType suppress=False',
 'AsciiFloat(n_bytes=2) parse': 'ok float:7.0',
 'AsciiFloat(this.n) parse': 'ok Container(n=int:3, value=float:42.0)',
 "AsciiFloat._decode('   ')": 'ok float:nan',
 "AsciiFloat._decode(' 12 ')": 'ok float:12.0',
 "AsciiFloat._decode('')": 'ok float:nan',
 "AsciiFloat._decode('\\u00a012\\u2003')": 'ok float:12.0',
 "AsciiFloat._decode('\\u00a0\\u2003')": 'ok float:nan',
 "AsciiFloat._decode('\\u0661\\u0662')": 'ok float:12.0',
 "AsciiFloat._decode('\\x00')": 'raise builtins.ValueError args=("could not convert string to '
                                'float: \'\\\\x00\'",) str="could not convert string to float: '
                                '\'\\\\x00\'" cause=NoneType context=NoneType suppress=False',
 'AsciiFloat._decode(12)': 'raise builtins.AttributeError args=("\'int\' object has no attribute '
                           '\'strip\'",) str="\'int\' object has no attribute \'strip\'" '
                           'cause=NoneType context=NoneType suppress=False',
 'AsciiFloat._decode(None)': 'raise builtins.AttributeError args=("\'NoneType\' object has no '
                             'attribute \'strip\'",) str="\'NoneType\' object has no attribute '
                             '\'strip\'" cause=NoneType context=NoneType suppress=False',
 "AsciiFloat._decode(Text('    '))": 'ok float:nan',
 "AsciiFloat._decode(Text('    ')) calls": "list[tuple[str:'strip', tuple[]]]",
 "AsciiFloat._decode(Text(' 42 '))": 'ok float:42.0',
 "AsciiFloat._decode(Text(' 42 ')) calls": "list[tuple[str:'strip', tuple[]]]",
 "AsciiFloat._decode(Weird(''))": 'ok float:nan',
 "AsciiFloat._decode(Weird('5'))": 'ok float:5.0',
 'AsciiFloat._decode(Weird(0))': 'ok float:nan',
 'AsciiFloat._decode(Weird(0.0))': 'ok float:nan',
 'AsciiFloat._decode(Weird(2.75))': 'ok float:2.75',
 'AsciiFloat._decode(Weird(3))': 'ok float:3.0',
 'AsciiFloat._decode(Weird(Falsy))': 'ok float:nan',
 'AsciiFloat._decode(Weird(Falsy)) protocol': "list[str:'bool']",
 'AsciiFloat._decode(Weird(None))': 'ok float:nan',
 'AsciiFloat._decode(Weird([1]))': 'raise builtins.TypeError args=("float() argument must be a '
                                   'string or a real number, not \'list\'",) str="float() argument '
                                   'must be a string or a real number, not \'list\'" '
                                   'cause=NoneType context=NoneType suppress=False',
 'AsciiFloat._decode(Weird([]))': 'ok float:nan',
 "AsciiFloat._decode(Weird(b''))": 'ok float:nan',
 "AsciiFloat._decode(b'   ')": 'ok float:nan',
 "AsciiFloat._decode(b' 12 ')": 'ok float:12.0',
 "AsciiFloat._decode(b'')": 'ok float:nan',
 "AsciiFloat._decode(bytearray(b' 3 '))": 'ok float:3.0',
 'AsciiInteger _decode arity': 'raise builtins.TypeError args=("AsciiInteger._decode() missing 2 '
                               'required positional arguments: \'context\' and \'path\'",) '
                               'str="AsciiInteger._decode() missing 2 required positional '
                               'arguments: \'context\' and \'path\'" cause=NoneType '
                               'context=NoneType suppress=False',
 'AsciiInteger blank type': "str:'int'",
 'AsciiInteger identity': "list[str:'AsciiInteger', str:'AsciiInteger', "
                          "str:'ceos_alos2.datatypes']",
 'AsciiInteger instances have their own subcon': 'bool:True',
 'AsciiInteger mro': "list[str:'ceos_alos2.datatypes.AsciiInteger', str:'construct.core.Adapter', "
                     "str:'construct.core.Subconstruct', str:'construct.core.Construct', "
                     "str:'builtins.object']",
 'AsciiInteger value type': "str:'int'",
 "AsciiInteger('4') construction": "ok str:'AsciiInteger'",
 "AsciiInteger('4') parse": 'raise builtins.TypeError args=("\'<\' not supported between instances '
                            'of \'str\' and \'int\'",) str="\'<\' not supported between instances '
                            'of \'str\' and \'int\'" cause=NoneType context=NoneType '
                            'suppress=False',
 "AsciiInteger('4') sizeof": 'raise builtins.TypeError args=("\'<\' not supported between '
                             'instances of \'str\' and \'int\'",) str="\'<\' not supported between '
                             'instances of \'str\' and \'int\'" cause=NoneType context=NoneType '
                             'suppress=False',
 'AsciiInteger() construction': 'raise builtins.TypeError args=("AsciiInteger.__init__() missing 1 '
                                'required positional argument: \'n_bytes\'",) '
                                'str="AsciiInteger.__init__() missing 1 required positional '
                                'argument: \'n_bytes\'" cause=NoneType context=NoneType '
                                'suppress=False',
 'AsciiInteger(-1) construction': "ok str:'AsciiInteger'",
 'AsciiInteger(-1) parse': "raise construct.core.PaddingError args=('Error in path "
                           "(parsing)\\nlength cannot be negative',) str='Error in path "
                           "(parsing)\\nlength cannot be negative' cause=NoneType context=NoneType "
                           'suppress=False',
 'AsciiInteger(-1) sizeof': "raise construct.core.PaddingError args=('Error in path "
                            "(sizeof)\\nlength cannot be negative',) str='Error in path "
                            "(sizeof)\\nlength cannot be negative' cause=NoneType context=NoneType "
                            'suppress=False',
 'AsciiInteger(0) sizeof': 'ok int:0',
 'AsciiInteger(0) subcon': "ok list[str:'StringEncoded', int:0, str:'ascii']",
 "AsciiInteger(0).parse(b'')": 'ok int:-1',
 "AsciiInteger(0).parse(b'12')": 'ok int:-1',
 'AsciiInteger(1) sizeof': 'ok int:1',
 'AsciiInteger(1) subcon': "ok list[str:'StringEncoded', int:1, str:'ascii']",
 "AsciiInteger(1).parse(b' ')": 'ok int:-1',
 "AsciiInteger(1).parse(b'7')": 'ok int:7',
 'AsciiInteger(16) sizeof': 'ok int:16',
 'AsciiInteger(16) subcon': "ok list[str:'StringEncoded', int:16, str:'ascii']",
 "AsciiInteger(16).parse(b'    123456789012')": 'ok int:123456789012',
 "AsciiInteger(16).parse(b'9999999999999999')": 'ok int:9999999999999999',
 "AsciiInteger(2).parse(b'15')": 'ok int:15',
 'AsciiInteger(2.0) construction': "ok str:'AsciiInteger'",
 'AsciiInteger(2.0) parse': "raise construct.core.StreamError args=('Error in path "
                            "(parsing)\\nstream.read() failed, requested 2.0 bytes',) str='Error "
                            "in path (parsing)\\nstream.read() failed, requested 2.0 bytes' "
                            'cause=NoneType context=TypeError suppress=False',
 'AsciiInteger(2.0) sizeof': 'ok float:2.0',
 'AsciiInteger(260) sizeof': 'ok int:260',
 'AsciiInteger(260) subcon': "ok list[str:'StringEncoded', int:260, str:'ascii']",
 'AsciiInteger(4) sizeof': 'ok int:4',
 'AsciiInteger(4) subcon': "ok list[str:'StringEncoded', int:4, str:'ascii']",
 "AsciiInteger(4).parse(b'    ')": 'ok int:-1',
 "AsciiInteger(4).parse(b'    1')": 'ok int:-1',
 "AsciiInteger(4).parse(b'  +7')": 'ok int:7',
 "AsciiInteger(4).parse(b'  -0')": 'ok int:0',
 "AsciiInteger(4).parse(b'  -5')": 'ok int:-5',
 "AsciiInteger(4).parse(b'  16')": 'ok int:16',
 "AsciiInteger(4).parse(b' 16 ')": 'ok int:16',
 "AsciiInteger(4).parse(b'')": "raise construct.core.StreamError args=('Error in path "
                               '(parsing)\\nstream read less than specified amount, expected 4, '
                               "found 0',) str='Error in path (parsing)\\nstream read less than "
                               "specified amount, expected 4, found 0' cause=NoneType "
                               'context=NoneType suppress=False',
 "AsciiInteger(4).parse(b'-  5')": 'raise builtins.ValueError args=("invalid literal for int() '
                                   'with base 10: \'-  5\'",) str="invalid literal for int() with '
                                   'base 10: \'-  5\'" cause=NoneType context=NoneType '
                                   'suppress=False',
 "AsciiInteger(4).parse(b'0000')": 'ok int:0',
 "AsciiInteger(4).parse(b'007 ')": 'ok int:7',
 "AsciiInteger(4).parse(b'0x1f')": 'raise builtins.ValueError args=("invalid literal for int() '
                                   'with base 10: \'0x1f\'",) str="invalid literal for int() with '
                                   'base 10: \'0x1f\'" cause=NoneType context=NoneType '
                                   'suppress=False',
 "AsciiInteger(4).parse(b'1 2 ')": 'raise builtins.ValueError args=("invalid literal for int() '
                                   'with base 10: \'1 2\'",) str="invalid literal for int() with '
                                   'base 10: \'1 2\'" cause=NoneType context=NoneType '
                                   'suppress=False',
 "AsciiInteger(4).parse(b'1.5 ')": 'raise builtins.ValueError args=("invalid literal for int() '
                                   'with base 10: \'1.5\'",) str="invalid literal for int() with '
                                   'base 10: \'1.5\'" cause=NoneType context=NoneType '
                                   'suppress=False',
 "AsciiInteger(4).parse(b'123')": "raise construct.core.StreamError args=('Error in path "
                                  '(parsing)\\nstream read less than specified amount, expected 4, '
                                  "found 3',) str='Error in path (parsing)\\nstream read less than "
                                  "specified amount, expected 4, found 3' cause=NoneType "
                                  'context=NoneType suppress=False',
 "AsciiInteger(4).parse(b'12\\x00\\x00')": 'ok int:12',
 "AsciiInteger(4).parse(b'12\\xff4')": 'raise construct.core.StringError args=("cannot use '
                                       'encoding \'ascii\' to decode b\'12\\\\xff4\'",) '
                                       'str="cannot use encoding \'ascii\' to decode '
                                       'b\'12\\\\xff4\'" cause=NoneType context=UnicodeDecodeError '
                                       'suppress=False',
 "AsciiInteger(4).parse(b'16  ')": 'ok int:16',
 "AsciiInteger(4).parse(b'1_00')": 'ok int:100',
 "AsciiInteger(4).parse(b'1e3 ')": 'raise builtins.ValueError args=("invalid literal for int() '
                                   'with base 10: \'1e3\'",) str="invalid literal for int() with '
                                   'base 10: \'1e3\'" cause=NoneType context=NoneType '
                                   'suppress=False',
 "AsciiInteger(4).parse(b'3989')": 'ok int:3989',
 "AsciiInteger(4).parse(b'\\t12\\n')": 'ok int:12',
 "AsciiInteger(4).parse(b'\\t\\n\\r ')": 'ok int:-1',
 "AsciiInteger(4).parse(b'\\x0012 ')": 'raise builtins.ValueError args=("invalid literal for int() '
                                       'with base 10: \'\\\\x0012\'",) str="invalid literal for '
                                       'int() with base 10: \'\\\\x0012\'" cause=NoneType '
                                       'context=NoneType suppress=False',
 "AsciiInteger(4).parse(b'\\x00\\x00\\x00\\x00')": 'ok int:-1',
 "AsciiInteger(4).parse(b'\\x0b\\x0c  ')": 'ok int:-1',
 "AsciiInteger(4).parse(b'\\x1c\\x1d\\x1e\\x1f')": 'ok int:-1',
 "AsciiInteger(4).parse(b'\\xe9   ')": 'raise construct.core.StringError args=("cannot use '
                                       'encoding \'ascii\' to decode b\'\\\\xe9   \'",) '
                                       'str="cannot use encoding \'ascii\' to decode b\'\\\\xe9   '
                                       '\'" cause=NoneType context=UnicodeDecodeError '
                                       'suppress=False',
 "AsciiInteger(4).parse(b'_100')": 'raise builtins.ValueError args=("invalid literal for int() '
                                   'with base 10: \'_100\'",) str="invalid literal for int() with '
                                   'base 10: \'_100\'" cause=NoneType context=NoneType '
                                   'suppress=False',
 "AsciiInteger(4).parse(b'abc ')": 'raise builtins.ValueError args=("invalid literal for int() '
                                   'with base 10: \'abc\'",) str="invalid literal for int() with '
                                   'base 10: \'abc\'" cause=NoneType context=NoneType '
                                   'suppress=False',
 "AsciiInteger(4).parse(b'nan ')": 'raise builtins.ValueError args=("invalid literal for int() '
                                   'with base 10: \'nan\'",) str="invalid literal for int() with '
                                   'base 10: \'nan\'" cause=NoneType context=NoneType '
                                   'suppress=False',
 "AsciiInteger(8).parse(b'\\x00\\x00\\x00\\x00  42')": 'raise builtins.ValueError args=("invalid '
                                                       'literal for int() with base 10: '
                                                       '\'\\\\x00\\\\x00\\\\x00\\\\x00  42\'",) '
                                                       'str="invalid literal for int() with base '
                                                       '10: \'\\\\x00\\\\x00\\\\x00\\\\x00  42\'" '
                                                       'cause=NoneType context=NoneType '
                                                       'suppress=False',
 'AsciiInteger(None) construction': "ok str:'AsciiInteger'",
 'AsciiInteger(None) parse': 'raise builtins.TypeError args=("\'<\' not supported between '
                             'instances of \'NoneType\' and \'int\'",) str="\'<\' not supported '
                             'between instances of \'NoneType\' and \'int\'" cause=NoneType '
                             'context=NoneType suppress=False',
 'AsciiInteger(None) sizeof': 'raise builtins.TypeError args=("\'<\' not supported between '
                              'instances of \'NoneType\' and \'int\'",) str="\'<\' not supported '
                              'between instances of \'NoneType\' and \'int\'" cause=NoneType '
                              'context=NoneType suppress=False',
 'AsciiInteger(n_bytes=2) parse': 'ok int:7',
 'AsciiInteger(this.n) parse': 'ok Container(n=int:3, value=int:42)',
 "AsciiInteger._decode('   ')": 'ok int:-1',
 "AsciiInteger._decode(' 12 ')": 'ok int:12',
 "AsciiInteger._decode('')": 'ok int:-1',
 "AsciiInteger._decode('\\u00a012\\u2003')": 'ok int:12',
 "AsciiInteger._decode('\\u00a0\\u2003')": 'ok int:-1',
 "AsciiInteger._decode('\\u0661\\u0662')": 'ok int:12',
 "AsciiInteger._decode('\\x00')": 'raise builtins.ValueError args=("invalid literal for int() with '
                                  'base 10: \'\\\\x00\'",) str="invalid literal for int() with '
                                  'base 10: \'\\\\x00\'" cause=NoneType context=NoneType '
                                  'suppress=False',
 'AsciiInteger._decode(12)': 'raise builtins.AttributeError args=("\'int\' object has no attribute '
                             '\'strip\'",) str="\'int\' object has no attribute \'strip\'" '
                             'cause=NoneType context=NoneType suppress=False',
 'AsciiInteger._decode(None)': 'raise builtins.AttributeError args=("\'NoneType\' object has no '
                               'attribute \'strip\'",) str="\'NoneType\' object has no attribute '
                               '\'strip\'" cause=NoneType context=NoneType suppress=False',
 "AsciiInteger._decode(Text('    '))": 'ok int:-1',
 "AsciiInteger._decode(Text('    ')) calls": "list[tuple[str:'strip', tuple[]]]",
 "AsciiInteger._decode(Text(' 42 '))": 'ok int:42',
 "AsciiInteger._decode(Text(' 42 ')) calls": "list[tuple[str:'strip', tuple[]]]",
 "AsciiInteger._decode(Weird(''))": 'ok int:-1',
 "AsciiInteger._decode(Weird('5'))": 'ok int:5',
 'AsciiInteger._decode(Weird(0))': 'ok int:-1',
 'AsciiInteger._decode(Weird(0.0))': 'ok int:-1',
 'AsciiInteger._decode(Weird(2.75))': 'ok int:2',
 'AsciiInteger._decode(Weird(3))': 'ok int:3',
 'AsciiInteger._decode(Weird(Falsy))': 'ok int:-1',
 'AsciiInteger._decode(Weird(Falsy)) protocol': "list[str:'bool']",
 'AsciiInteger._decode(Weird(None))': 'ok int:-1',
 'AsciiInteger._decode(Weird([1]))': 'raise builtins.TypeError args=("int() argument must be a '
                                     'string, a bytes-like object or a real number, not '
                                     '\'list\'",) str="int() argument must be a string, a '
                                     'bytes-like object or a real number, not \'list\'" '
                                     'cause=NoneType context=NoneType suppress=False',
 'AsciiInteger._decode(Weird([]))': 'ok int:-1',
 "AsciiInteger._decode(Weird(b''))": 'ok int:-1',
 "AsciiInteger._decode(b'   ')": 'ok int:-1',
 "AsciiInteger._decode(b' 12 ')": 'ok int:12',
 "AsciiInteger._decode(b'')": 'ok int:-1',
 "AsciiInteger._decode(bytearray(b' 3 '))": 'ok int:3',
 'DatetimeYdus keywords': 'ok datetime:datetime.datetime(2020, 5, 17, 0, 0, 0, 5)',
 'DatetimeYdus state': "list[str:'docs', str:'flagbuildnone', str:'name', str:'parsed', "
                       "str:'reference_date', str:'subcon']",
 'DatetimeYdus swapped: after': 'ok datetime:datetime.datetime(1990, 1, 2, 0, 0, 0, 9)',
 'DatetimeYdus swapped: before': 'ok datetime:datetime.datetime(2020, 5, 17, 0, 0, 0, 9)',
 'DatetimeYdus(base only)': 'raise builtins.TypeError args=("DatetimeYdus.__init__() missing 1 '
                            'required positional argument: \'reference_date\'",) '
                            'str="DatetimeYdus.__init__() missing 1 required positional argument: '
                            '\'reference_date\'" cause=NoneType context=NoneType suppress=False',
 'DatetimeYdus[None] keeps reference': 'bool:True',
 'DatetimeYdus[None]._decode without context': 'raise builtins.AttributeError args=("\'NoneType\' '
                                               'object has no attribute \'date\'",) '
                                               'str="\'NoneType\' object has no attribute '
                                               '\'date\'" cause=NoneType context=NoneType '
                                               'suppress=False',
 "DatetimeYdus[None]._decode('1')": 'raise builtins.AttributeError args=("\'NoneType\' object has '
                                    'no attribute \'date\'",) str="\'NoneType\' object has no '
                                    'attribute \'date\'" cause=NoneType context=NoneType '
                                    'suppress=False',
 "DatetimeYdus[None]._decode('1') calls": 'list[]',
 'DatetimeYdus[None]._decode(-1)': 'raise builtins.AttributeError args=("\'NoneType\' object has '
                                   'no attribute \'date\'",) str="\'NoneType\' object has no '
                                   'attribute \'date\'" cause=NoneType context=NoneType '
                                   'suppress=False',
 'DatetimeYdus[None]._decode(-1) calls': 'list[]',
 'DatetimeYdus[None]._decode(0)': 'raise builtins.AttributeError args=("\'NoneType\' object has no '
                                  'attribute \'date\'",) str="\'NoneType\' object has no attribute '
                                  '\'date\'" cause=NoneType context=NoneType suppress=False',
 'DatetimeYdus[None]._decode(0) calls': 'list[]',
 'DatetimeYdus[None]._decode(1)': 'raise builtins.AttributeError args=("\'NoneType\' object has no '
                                  'attribute \'date\'",) str="\'NoneType\' object has no attribute '
                                  '\'date\'" cause=NoneType context=NoneType suppress=False',
 'DatetimeYdus[None]._decode(1) calls': 'list[]',
 'DatetimeYdus[None]._decode(1.5)': 'raise builtins.AttributeError args=("\'NoneType\' object has '
                                    'no attribute \'date\'",) str="\'NoneType\' object has no '
                                    'attribute \'date\'" cause=NoneType context=NoneType '
                                    'suppress=False',
 'DatetimeYdus[None]._decode(1.5) calls': 'list[]',
 'DatetimeYdus[None]._decode(2**62)': 'raise builtins.AttributeError args=("\'NoneType\' object '
                                      'has no attribute \'date\'",) str="\'NoneType\' object has '
                                      'no attribute \'date\'" cause=NoneType context=NoneType '
                                      'suppress=False',
 'DatetimeYdus[None]._decode(2**62) calls': 'list[]',
 'DatetimeYdus[None]._decode(86399999999)': 'raise builtins.AttributeError args=("\'NoneType\' '
                                            'object has no attribute \'date\'",) str="\'NoneType\' '
                                            'object has no attribute \'date\'" cause=NoneType '
                                            'context=NoneType suppress=False',
 'DatetimeYdus[None]._decode(86399999999) calls': 'list[]',
 'DatetimeYdus[None]._decode(86400000000)': 'raise builtins.AttributeError args=("\'NoneType\' '
                                            'object has no attribute \'date\'",) str="\'NoneType\' '
                                            'object has no attribute \'date\'" cause=NoneType '
                                            'context=NoneType suppress=False',
 'DatetimeYdus[None]._decode(86400000000) calls': 'list[]',
 'DatetimeYdus[None]._decode(None)': 'raise builtins.AttributeError args=("\'NoneType\' object has '
                                     'no attribute \'date\'",) str="\'NoneType\' object has no '
                                     'attribute \'date\'" cause=NoneType context=NoneType '
                                     'suppress=False',
 'DatetimeYdus[None]._decode(None) calls': 'list[]',
 'DatetimeYdus[None].parse': 'raise builtins.AttributeError args=("\'NoneType\' object has no '
                             'attribute \'date\'",) str="\'NoneType\' object has no attribute '
                             '\'date\'" cause=NoneType context=NoneType suppress=False',
 'DatetimeYdus[None].parse short': "raise construct.core.StreamError args=('Error in path "
                                   '(parsing)\\nstream read less than specified amount, expected '
                                   "8, found 2',) str='Error in path (parsing)\\nstream read less "
                                   "than specified amount, expected 8, found 2' cause=NoneType "
                                   'context=NoneType suppress=False',
 'DatetimeYdus[aware datetime] keeps reference': 'bool:True',
 'DatetimeYdus[aware datetime]._decode without context': 'ok datetime:datetime.datetime(2020, 5, '
                                                         '17, 0, 0, 0, 5)',
 "DatetimeYdus[aware datetime]._decode('1')": "raise builtins.TypeError args=('unsupported type "
                                              "for timedelta microseconds component: str',) "
                                              "str='unsupported type for timedelta microseconds "
                                              "component: str' cause=NoneType context=NoneType "
                                              'suppress=False',
 "DatetimeYdus[aware datetime]._decode('1') calls": 'list[]',
 'DatetimeYdus[aware datetime]._decode(-1)': 'ok datetime:datetime.datetime(2020, 5, 16, 23, 59, '
                                             '59, 999999)',
 'DatetimeYdus[aware datetime]._decode(-1) calls': 'list[]',
 'DatetimeYdus[aware datetime]._decode(0)': 'ok datetime:datetime.datetime(2020, 5, 17, 0, 0)',
 'DatetimeYdus[aware datetime]._decode(0) calls': 'list[]',
 'DatetimeYdus[aware datetime]._decode(1)': 'ok datetime:datetime.datetime(2020, 5, 17, 0, 0, 0, '
                                            '1)',
 'DatetimeYdus[aware datetime]._decode(1) calls': 'list[]',
 'DatetimeYdus[aware datetime]._decode(1.5)': 'ok datetime:datetime.datetime(2020, 5, 17, 0, 0, 0, '
                                              '2)',
 'DatetimeYdus[aware datetime]._decode(1.5) calls': 'list[]',
 'DatetimeYdus[aware datetime]._decode(2**62)': "raise builtins.OverflowError args=('date value "
                                                "out of range',) str='date value out of range' "
                                                'cause=NoneType context=NoneType suppress=False',
 'DatetimeYdus[aware datetime]._decode(2**62) calls': 'list[]',
 'DatetimeYdus[aware datetime]._decode(86399999999)': 'ok datetime:datetime.datetime(2020, 5, 17, '
                                                      '23, 59, 59, 999999)',
 'DatetimeYdus[aware datetime]._decode(86399999999) calls': 'list[]',
 'DatetimeYdus[aware datetime]._decode(86400000000)': 'ok datetime:datetime.datetime(2020, 5, 18, '
                                                      '0, 0)',
 'DatetimeYdus[aware datetime]._decode(86400000000) calls': 'list[]',
 'DatetimeYdus[aware datetime]._decode(None)': "raise builtins.TypeError args=('unsupported type "
                                               "for timedelta microseconds component: NoneType',) "
                                               "str='unsupported type for timedelta microseconds "
                                               "component: NoneType' cause=NoneType "
                                               'context=NoneType suppress=False',
 'DatetimeYdus[aware datetime]._decode(None) calls': 'list[]',
 'DatetimeYdus[aware datetime].parse': 'ok datetime:datetime.datetime(2020, 5, 17, 0, 0, 1, 1)',
 'DatetimeYdus[aware datetime].parse short': "raise construct.core.StreamError args=('Error in "
                                             'path (parsing)\\nstream read less than specified '
                                             "amount, expected 8, found 2',) str='Error in path "
                                             '(parsing)\\nstream read less than specified amount, '
                                             "expected 8, found 2' cause=NoneType context=NoneType "
                                             'suppress=False',
 'DatetimeYdus[callable datetime] keeps reference': 'bool:True',
 'DatetimeYdus[callable datetime]._decode without context': 'ok datetime:datetime.datetime(1999, '
                                                            '12, 31, 0, 0, 0, 5)',
 "DatetimeYdus[callable datetime]._decode('1')": "raise builtins.TypeError args=('unsupported type "
                                                 "for timedelta microseconds component: str',) "
                                                 "str='unsupported type for timedelta microseconds "
                                                 "component: str' cause=NoneType context=NoneType "
                                                 'suppress=False',
 "DatetimeYdus[callable datetime]._decode('1') calls": "list[str:'called']",
 'DatetimeYdus[callable datetime]._decode(-1)': 'ok datetime:datetime.datetime(1999, 12, 30, 23, '
                                                '59, 59, 999999)',
 'DatetimeYdus[callable datetime]._decode(-1) calls': "list[str:'called']",
 'DatetimeYdus[callable datetime]._decode(0)': 'ok datetime:datetime.datetime(1999, 12, 31, 0, 0)',
 'DatetimeYdus[callable datetime]._decode(0) calls': "list[str:'called']",
 'DatetimeYdus[callable datetime]._decode(1)': 'ok datetime:datetime.datetime(1999, 12, 31, 0, 0, '
                                               '0, 1)',
 'DatetimeYdus[callable datetime]._decode(1) calls': "list[str:'called']",
 'DatetimeYdus[callable datetime]._decode(1.5)': 'ok datetime:datetime.datetime(1999, 12, 31, 0, '
                                                 '0, 0, 2)',
 'DatetimeYdus[callable datetime]._decode(1.5) calls': "list[str:'called']",
 'DatetimeYdus[callable datetime]._decode(2**62)': "raise builtins.OverflowError args=('date value "
                                                   "out of range',) str='date value out of range' "
                                                   'cause=NoneType context=NoneType suppress=False',
 'DatetimeYdus[callable datetime]._decode(2**62) calls': "list[str:'called']",
 'DatetimeYdus[callable datetime]._decode(86399999999)': 'ok datetime:datetime.datetime(1999, 12, '
                                                         '31, 23, 59, 59, 999999)',
 'DatetimeYdus[callable datetime]._decode(86399999999) calls': "list[str:'called']",
 'DatetimeYdus[callable datetime]._decode(86400000000)': 'ok datetime:datetime.datetime(2000, 1, '
                                                         '1, 0, 0)',
 'DatetimeYdus[callable datetime]._decode(86400000000) calls': "list[str:'called']",
 'DatetimeYdus[callable datetime]._decode(None)': "raise builtins.TypeError args=('unsupported "
                                                  'type for timedelta microseconds component: '
                                                  "NoneType',) str='unsupported type for timedelta "
                                                  "microseconds component: NoneType' "
                                                  'cause=NoneType context=NoneType suppress=False',
 'DatetimeYdus[callable datetime]._decode(None) calls': "list[str:'called']",
 'DatetimeYdus[callable datetime].parse': 'ok datetime:datetime.datetime(1999, 12, 31, 0, 0, 1, 1)',
 'DatetimeYdus[callable datetime].parse short': "raise construct.core.StreamError args=('Error in "
                                                'path (parsing)\\nstream read less than specified '
                                                "amount, expected 8, found 2',) str='Error in path "
                                                '(parsing)\\nstream read less than specified '
                                                "amount, expected 8, found 2' cause=NoneType "
                                                'context=NoneType suppress=False',
 'DatetimeYdus[class] keeps reference': 'bool:True',
 'DatetimeYdus[class]._decode without context': 'raise builtins.TypeError args=("\'NoneType\' '
                                                'object cannot be interpreted as an integer",) '
                                                'str="\'NoneType\' object cannot be interpreted as '
                                                'an integer" cause=NoneType context=NoneType '
                                                'suppress=False',
 "DatetimeYdus[class]._decode('1')": 'raise builtins.TypeError args=("\'dict\' object cannot be '
                                     'interpreted as an integer",) str="\'dict\' object cannot be '
                                     'interpreted as an integer" cause=NoneType context=NoneType '
                                     'suppress=False',
 "DatetimeYdus[class]._decode('1') calls": 'list[]',
 'DatetimeYdus[class]._decode(-1)': 'raise builtins.TypeError args=("\'dict\' object cannot be '
                                    'interpreted as an integer",) str="\'dict\' object cannot be '
                                    'interpreted as an integer" cause=NoneType context=NoneType '
                                    'suppress=False',
 'DatetimeYdus[class]._decode(-1) calls': 'list[]',
 'DatetimeYdus[class]._decode(0)': 'raise builtins.TypeError args=("\'dict\' object cannot be '
                                   'interpreted as an integer",) str="\'dict\' object cannot be '
                                   'interpreted as an integer" cause=NoneType context=NoneType '
                                   'suppress=False',
 'DatetimeYdus[class]._decode(0) calls': 'list[]',
 'DatetimeYdus[class]._decode(1)': 'raise builtins.TypeError args=("\'dict\' object cannot be '
                                   'interpreted as an integer",) str="\'dict\' object cannot be '
                                   'interpreted as an integer" cause=NoneType context=NoneType '
                                   'suppress=False',
 'DatetimeYdus[class]._decode(1) calls': 'list[]',
 'DatetimeYdus[class]._decode(1.5)': 'raise builtins.TypeError args=("\'dict\' object cannot be '
                                     'interpreted as an integer",) str="\'dict\' object cannot be '
                                     'interpreted as an integer" cause=NoneType context=NoneType '
                                     'suppress=False',
 'DatetimeYdus[class]._decode(1.5) calls': 'list[]',
 'DatetimeYdus[class]._decode(2**62)': 'raise builtins.TypeError args=("\'dict\' object cannot be '
                                       'interpreted as an integer",) str="\'dict\' object cannot '
                                       'be interpreted as an integer" cause=NoneType '
                                       'context=NoneType suppress=False',
 'DatetimeYdus[class]._decode(2**62) calls': 'list[]',
 'DatetimeYdus[class]._decode(86399999999)': 'raise builtins.TypeError args=("\'dict\' object '
                                             'cannot be interpreted as an integer",) str="\'dict\' '
                                             'object cannot be interpreted as an integer" '
                                             'cause=NoneType context=NoneType suppress=False',
 'DatetimeYdus[class]._decode(86399999999) calls': 'list[]',
 'DatetimeYdus[class]._decode(86400000000)': 'raise builtins.TypeError args=("\'dict\' object '
                                             'cannot be interpreted as an integer",) str="\'dict\' '
                                             'object cannot be interpreted as an integer" '
                                             'cause=NoneType context=NoneType suppress=False',
 'DatetimeYdus[class]._decode(86400000000) calls': 'list[]',
 'DatetimeYdus[class]._decode(None)': 'raise builtins.TypeError args=("\'dict\' object cannot be '
                                      'interpreted as an integer",) str="\'dict\' object cannot be '
                                      'interpreted as an integer" cause=NoneType context=NoneType '
                                      'suppress=False',
 'DatetimeYdus[class]._decode(None) calls': 'list[]',
 'DatetimeYdus[class].parse': 'raise builtins.TypeError args=("\'Container\' object cannot be '
                              'interpreted as an integer",) str="\'Container\' object cannot be '
                              'interpreted as an integer" cause=NoneType context=NoneType '
                              'suppress=False',
 'DatetimeYdus[class].parse short': "raise construct.core.StreamError args=('Error in path "
                                    '(parsing)\\nstream read less than specified amount, expected '
                                    "8, found 2',) str='Error in path (parsing)\\nstream read less "
                                    "than specified amount, expected 8, found 2' cause=NoneType "
                                    'context=NoneType suppress=False',
 'DatetimeYdus[date] keeps reference': 'bool:True',
 'DatetimeYdus[date]._decode without context': 'raise builtins.AttributeError '
                                               'args=("\'datetime.date\' object has no attribute '
                                               '\'date\'",) str="\'datetime.date\' object has no '
                                               'attribute \'date\'" cause=NoneType '
                                               'context=NoneType suppress=False',
 "DatetimeYdus[date]._decode('1')": 'raise builtins.AttributeError args=("\'datetime.date\' object '
                                    'has no attribute \'date\'",) str="\'datetime.date\' object '
                                    'has no attribute \'date\'" cause=NoneType context=NoneType '
                                    'suppress=False',
 "DatetimeYdus[date]._decode('1') calls": 'list[]',
 'DatetimeYdus[date]._decode(-1)': 'raise builtins.AttributeError args=("\'datetime.date\' object '
                                   'has no attribute \'date\'",) str="\'datetime.date\' object has '
                                   'no attribute \'date\'" cause=NoneType context=NoneType '
                                   'suppress=False',
 'DatetimeYdus[date]._decode(-1) calls': 'list[]',
 'DatetimeYdus[date]._decode(0)': 'raise builtins.AttributeError args=("\'datetime.date\' object '
                                  'has no attribute \'date\'",) str="\'datetime.date\' object has '
                                  'no attribute \'date\'" cause=NoneType context=NoneType '
                                  'suppress=False',
 'DatetimeYdus[date]._decode(0) calls': 'list[]',
 'DatetimeYdus[date]._decode(1)': 'raise builtins.AttributeError args=("\'datetime.date\' object '
                                  'has no attribute \'date\'",) str="\'datetime.date\' object has '
                                  'no attribute \'date\'" cause=NoneType context=NoneType '
                                  'suppress=False',
 'DatetimeYdus[date]._decode(1) calls': 'list[]',
 'DatetimeYdus[date]._decode(1.5)': 'raise builtins.AttributeError args=("\'datetime.date\' object '
                                    'has no attribute \'date\'",) str="\'datetime.date\' object '
                                    'has no attribute \'date\'" cause=NoneType context=NoneType '
                                    'suppress=False',
 'DatetimeYdus[date]._decode(1.5) calls': 'list[]',
 'DatetimeYdus[date]._decode(2**62)': 'raise builtins.AttributeError args=("\'datetime.date\' '
                                      'object has no attribute \'date\'",) str="\'datetime.date\' '
                                      'object has no attribute \'date\'" cause=NoneType '
                                      'context=NoneType suppress=False',
 'DatetimeYdus[date]._decode(2**62) calls': 'list[]',
 'DatetimeYdus[date]._decode(86399999999)': 'raise builtins.AttributeError '
                                            'args=("\'datetime.date\' object has no attribute '
                                            '\'date\'",) str="\'datetime.date\' object has no '
                                            'attribute \'date\'" cause=NoneType context=NoneType '
                                            'suppress=False',
 'DatetimeYdus[date]._decode(86399999999) calls': 'list[]',
 'DatetimeYdus[date]._decode(86400000000)': 'raise builtins.AttributeError '
                                            'args=("\'datetime.date\' object has no attribute '
                                            '\'date\'",) str="\'datetime.date\' object has no '
                                            'attribute \'date\'" cause=NoneType context=NoneType '
                                            'suppress=False',
 'DatetimeYdus[date]._decode(86400000000) calls': 'list[]',
 'DatetimeYdus[date]._decode(None)': 'raise builtins.AttributeError args=("\'datetime.date\' '
                                     'object has no attribute \'date\'",) str="\'datetime.date\' '
                                     'object has no attribute \'date\'" cause=NoneType '
                                     'context=NoneType suppress=False',
 'DatetimeYdus[date]._decode(None) calls': 'list[]',
 'DatetimeYdus[date].parse': 'raise builtins.AttributeError args=("\'datetime.date\' object has no '
                             'attribute \'date\'",) str="\'datetime.date\' object has no attribute '
                             '\'date\'" cause=NoneType context=NoneType suppress=False',
 'DatetimeYdus[date].parse short': "raise construct.core.StreamError args=('Error in path "
                                   '(parsing)\\nstream read less than specified amount, expected '
                                   "8, found 2',) str='Error in path (parsing)\\nstream read less "
                                   "than specified amount, expected 8, found 2' cause=NoneType "
                                   'context=NoneType suppress=False',
 'DatetimeYdus[datetime] keeps reference': 'bool:True',
 'DatetimeYdus[datetime]._decode without context': 'ok datetime:datetime.datetime(2020, 5, 17, 0, '
                                                   '0, 0, 5)',
 "DatetimeYdus[datetime]._decode('1')": "raise builtins.TypeError args=('unsupported type for "
                                        "timedelta microseconds component: str',) str='unsupported "
                                        "type for timedelta microseconds component: str' "
                                        'cause=NoneType context=NoneType suppress=False',
 "DatetimeYdus[datetime]._decode('1') calls": 'list[]',
 'DatetimeYdus[datetime]._decode(-1)': 'ok datetime:datetime.datetime(2020, 5, 16, 23, 59, 59, '
                                       '999999)',
 'DatetimeYdus[datetime]._decode(-1) calls': 'list[]',
 'DatetimeYdus[datetime]._decode(0)': 'ok datetime:datetime.datetime(2020, 5, 17, 0, 0)',
 'DatetimeYdus[datetime]._decode(0) calls': 'list[]',
 'DatetimeYdus[datetime]._decode(1)': 'ok datetime:datetime.datetime(2020, 5, 17, 0, 0, 0, 1)',
 'DatetimeYdus[datetime]._decode(1) calls': 'list[]',
 'DatetimeYdus[datetime]._decode(1.5)': 'ok datetime:datetime.datetime(2020, 5, 17, 0, 0, 0, 2)',
 'DatetimeYdus[datetime]._decode(1.5) calls': 'list[]',
 'DatetimeYdus[datetime]._decode(2**62)': "raise builtins.OverflowError args=('date value out of "
                                          "range',) str='date value out of range' cause=NoneType "
                                          'context=NoneType suppress=False',
 'DatetimeYdus[datetime]._decode(2**62) calls': 'list[]',
 'DatetimeYdus[datetime]._decode(86399999999)': 'ok datetime:datetime.datetime(2020, 5, 17, 23, '
                                                '59, 59, 999999)',
 'DatetimeYdus[datetime]._decode(86399999999) calls': 'list[]',
 'DatetimeYdus[datetime]._decode(86400000000)': 'ok datetime:datetime.datetime(2020, 5, 18, 0, 0)',
 'DatetimeYdus[datetime]._decode(86400000000) calls': 'list[]',
 'DatetimeYdus[datetime]._decode(None)': "raise builtins.TypeError args=('unsupported type for "
                                         "timedelta microseconds component: NoneType',) "
                                         "str='unsupported type for timedelta microseconds "
                                         "component: NoneType' cause=NoneType context=NoneType "
                                         'suppress=False',
 'DatetimeYdus[datetime]._decode(None) calls': 'list[]',
 'DatetimeYdus[datetime].parse': 'ok datetime:datetime.datetime(2020, 5, 17, 0, 0, 1, 1)',
 'DatetimeYdus[datetime].parse short': "raise construct.core.StreamError args=('Error in path "
                                       '(parsing)\\nstream read less than specified amount, '
                                       "expected 8, found 2',) str='Error in path "
                                       '(parsing)\\nstream read less than specified amount, '
                                       "expected 8, found 2' cause=NoneType context=NoneType "
                                       'suppress=False',
 'DatetimeYdus[function] keeps reference': 'bool:True',
 'DatetimeYdus[function]._decode without context': 'raise builtins.TypeError args=("\'NoneType\' '
                                                   'object is not subscriptable",) '
                                                   'str="\'NoneType\' object is not subscriptable" '
                                                   'cause=NoneType context=NoneType suppress=False',
 "DatetimeYdus[function]._decode('1')": "raise builtins.TypeError args=('unsupported type for "
                                        "timedelta microseconds component: str',) str='unsupported "
                                        "type for timedelta microseconds component: str' "
                                        'cause=NoneType context=NoneType suppress=False',
 "DatetimeYdus[function]._decode('1') calls": 'list[bool:True]',
 'DatetimeYdus[function]._decode(-1)': 'ok datetime:datetime.datetime(2018, 3, 3, 23, 59, 59, '
                                       '999999)',
 'DatetimeYdus[function]._decode(-1) calls': 'list[bool:True]',
 'DatetimeYdus[function]._decode(0)': 'ok datetime:datetime.datetime(2018, 3, 4, 0, 0)',
 'DatetimeYdus[function]._decode(0) calls': 'list[bool:True]',
 'DatetimeYdus[function]._decode(1)': 'ok datetime:datetime.datetime(2018, 3, 4, 0, 0, 0, 1)',
 'DatetimeYdus[function]._decode(1) calls': 'list[bool:True]',
 'DatetimeYdus[function]._decode(1.5)': 'ok datetime:datetime.datetime(2018, 3, 4, 0, 0, 0, 2)',
 'DatetimeYdus[function]._decode(1.5) calls': 'list[bool:True]',
 'DatetimeYdus[function]._decode(2**62)': "raise builtins.OverflowError args=('date value out of "
                                          "range',) str='date value out of range' cause=NoneType "
                                          'context=NoneType suppress=False',
 'DatetimeYdus[function]._decode(2**62) calls': 'list[bool:True]',
 'DatetimeYdus[function]._decode(86399999999)': 'ok datetime:datetime.datetime(2018, 3, 4, 23, 59, '
                                                '59, 999999)',
 'DatetimeYdus[function]._decode(86399999999) calls': 'list[bool:True]',
 'DatetimeYdus[function]._decode(86400000000)': 'ok datetime:datetime.datetime(2018, 3, 5, 0, 0)',
 'DatetimeYdus[function]._decode(86400000000) calls': 'list[bool:True]',
 'DatetimeYdus[function]._decode(None)': "raise builtins.TypeError args=('unsupported type for "
                                         "timedelta microseconds component: NoneType',) "
                                         "str='unsupported type for timedelta microseconds "
                                         "component: NoneType' cause=NoneType context=NoneType "
                                         'suppress=False',
 'DatetimeYdus[function]._decode(None) calls': 'list[bool:True]',
 'DatetimeYdus[function].parse': 'ok datetime:datetime.datetime(2001, 2, 3, 0, 0, 1, 1)',
 'DatetimeYdus[function].parse short': "raise construct.core.StreamError args=('Error in path "
                                       '(parsing)\\nstream read less than specified amount, '
                                       "expected 8, found 2',) str='Error in path "
                                       '(parsing)\\nstream read less than specified amount, '
                                       "expected 8, found 2' cause=NoneType context=NoneType "
                                       'suppress=False',
 'DatetimeYdus[lambda: None] keeps reference': 'bool:True',
 'DatetimeYdus[lambda: None]._decode without context': 'raise builtins.AttributeError '
                                                       'args=("\'NoneType\' object has no '
                                                       'attribute \'date\'",) str="\'NoneType\' '
                                                       'object has no attribute \'date\'" '
                                                       'cause=NoneType context=NoneType '
                                                       'suppress=False',
 "DatetimeYdus[lambda: None]._decode('1')": 'raise builtins.AttributeError args=("\'NoneType\' '
                                            'object has no attribute \'date\'",) str="\'NoneType\' '
                                            'object has no attribute \'date\'" cause=NoneType '
                                            'context=NoneType suppress=False',
 "DatetimeYdus[lambda: None]._decode('1') calls": 'list[]',
 'DatetimeYdus[lambda: None]._decode(-1)': 'raise builtins.AttributeError args=("\'NoneType\' '
                                           'object has no attribute \'date\'",) str="\'NoneType\' '
                                           'object has no attribute \'date\'" cause=NoneType '
                                           'context=NoneType suppress=False',
 'DatetimeYdus[lambda: None]._decode(-1) calls': 'list[]',
 'DatetimeYdus[lambda: None]._decode(0)': 'raise builtins.AttributeError args=("\'NoneType\' '
                                          'object has no attribute \'date\'",) str="\'NoneType\' '
                                          'object has no attribute \'date\'" cause=NoneType '
                                          'context=NoneType suppress=False',
 'DatetimeYdus[lambda: None]._decode(0) calls': 'list[]',
 'DatetimeYdus[lambda: None]._decode(1)': 'raise builtins.AttributeError args=("\'NoneType\' '
                                          'object has no attribute \'date\'",) str="\'NoneType\' '
                                          'object has no attribute \'date\'" cause=NoneType '
                                          'context=NoneType suppress=False',
 'DatetimeYdus[lambda: None]._decode(1) calls': 'list[]',
 'DatetimeYdus[lambda: None]._decode(1.5)': 'raise builtins.AttributeError args=("\'NoneType\' '
                                            'object has no attribute \'date\'",) str="\'NoneType\' '
                                            'object has no attribute \'date\'" cause=NoneType '
                                            'context=NoneType suppress=False',
 'DatetimeYdus[lambda: None]._decode(1.5) calls': 'list[]',
 'DatetimeYdus[lambda: None]._decode(2**62)': 'raise builtins.AttributeError args=("\'NoneType\' '
                                              'object has no attribute \'date\'",) '
                                              'str="\'NoneType\' object has no attribute \'date\'" '
                                              'cause=NoneType context=NoneType suppress=False',
 'DatetimeYdus[lambda: None]._decode(2**62) calls': 'list[]',
 'DatetimeYdus[lambda: None]._decode(86399999999)': 'raise builtins.AttributeError '
                                                    'args=("\'NoneType\' object has no attribute '
                                                    '\'date\'",) str="\'NoneType\' object has no '
                                                    'attribute \'date\'" cause=NoneType '
                                                    'context=NoneType suppress=False',
 'DatetimeYdus[lambda: None]._decode(86399999999) calls': 'list[]',
 'DatetimeYdus[lambda: None]._decode(86400000000)': 'raise builtins.AttributeError '
                                                    'args=("\'NoneType\' object has no attribute '
                                                    '\'date\'",) str="\'NoneType\' object has no '
                                                    'attribute \'date\'" cause=NoneType '
                                                    'context=NoneType suppress=False',
 'DatetimeYdus[lambda: None]._decode(86400000000) calls': 'list[]',
 'DatetimeYdus[lambda: None]._decode(None)': 'raise builtins.AttributeError args=("\'NoneType\' '
                                             'object has no attribute \'date\'",) '
                                             'str="\'NoneType\' object has no attribute \'date\'" '
                                             'cause=NoneType context=NoneType suppress=False',
 'DatetimeYdus[lambda: None]._decode(None) calls': 'list[]',
 'DatetimeYdus[lambda: None].parse': 'raise builtins.AttributeError args=("\'NoneType\' object has '
                                     'no attribute \'date\'",) str="\'NoneType\' object has no '
                                     'attribute \'date\'" cause=NoneType context=NoneType '
                                     'suppress=False',
 'DatetimeYdus[lambda: None].parse short': "raise construct.core.StreamError args=('Error in path "
                                           '(parsing)\\nstream read less than specified amount, '
                                           "expected 8, found 2',) str='Error in path "
                                           '(parsing)\\nstream read less than specified amount, '
                                           "expected 8, found 2' cause=NoneType context=NoneType "
                                           'suppress=False',
 'DatetimeYdus[lambda: date] keeps reference': 'bool:True',
 'DatetimeYdus[lambda: date]._decode without context': 'raise builtins.AttributeError '
                                                       'args=("\'datetime.date\' object has no '
                                                       'attribute \'date\'",) '
                                                       'str="\'datetime.date\' object has no '
                                                       'attribute \'date\'" cause=NoneType '
                                                       'context=NoneType suppress=False',
 "DatetimeYdus[lambda: date]._decode('1')": 'raise builtins.AttributeError '
                                            'args=("\'datetime.date\' object has no attribute '
                                            '\'date\'",) str="\'datetime.date\' object has no '
                                            'attribute \'date\'" cause=NoneType context=NoneType '
                                            'suppress=False',
 "DatetimeYdus[lambda: date]._decode('1') calls": 'list[]',
 'DatetimeYdus[lambda: date]._decode(-1)': 'raise builtins.AttributeError args=("\'datetime.date\' '
                                           'object has no attribute \'date\'",) '
                                           'str="\'datetime.date\' object has no attribute '
                                           '\'date\'" cause=NoneType context=NoneType '
                                           'suppress=False',
 'DatetimeYdus[lambda: date]._decode(-1) calls': 'list[]',
 'DatetimeYdus[lambda: date]._decode(0)': 'raise builtins.AttributeError args=("\'datetime.date\' '
                                          'object has no attribute \'date\'",) '
                                          'str="\'datetime.date\' object has no attribute '
                                          '\'date\'" cause=NoneType context=NoneType '
                                          'suppress=False',
 'DatetimeYdus[lambda: date]._decode(0) calls': 'list[]',
 'DatetimeYdus[lambda: date]._decode(1)': 'raise builtins.AttributeError args=("\'datetime.date\' '
                                          'object has no attribute \'date\'",) '
                                          'str="\'datetime.date\' object has no attribute '
                                          '\'date\'" cause=NoneType context=NoneType '
                                          'suppress=False',
 'DatetimeYdus[lambda: date]._decode(1) calls': 'list[]',
 'DatetimeYdus[lambda: date]._decode(1.5)': 'raise builtins.AttributeError '
                                            'args=("\'datetime.date\' object has no attribute '
                                            '\'date\'",) str="\'datetime.date\' object has no '
                                            'attribute \'date\'" cause=NoneType context=NoneType '
                                            'suppress=False',
 'DatetimeYdus[lambda: date]._decode(1.5) calls': 'list[]',
 'DatetimeYdus[lambda: date]._decode(2**62)': 'raise builtins.AttributeError '
                                              'args=("\'datetime.date\' object has no attribute '
                                              '\'date\'",) str="\'datetime.date\' object has no '
                                              'attribute \'date\'" cause=NoneType context=NoneType '
                                              'suppress=False',
 'DatetimeYdus[lambda: date]._decode(2**62) calls': 'list[]',
 'DatetimeYdus[lambda: date]._decode(86399999999)': 'raise builtins.AttributeError '
                                                    'args=("\'datetime.date\' object has no '
                                                    'attribute \'date\'",) str="\'datetime.date\' '
                                                    'object has no attribute \'date\'" '
                                                    'cause=NoneType context=NoneType '
                                                    'suppress=False',
 'DatetimeYdus[lambda: date]._decode(86399999999) calls': 'list[]',
 'DatetimeYdus[lambda: date]._decode(86400000000)': 'raise builtins.AttributeError '
                                                    'args=("\'datetime.date\' object has no '
                                                    'attribute \'date\'",) str="\'datetime.date\' '
                                                    'object has no attribute \'date\'" '
                                                    'cause=NoneType context=NoneType '
                                                    'suppress=False',
 'DatetimeYdus[lambda: date]._decode(86400000000) calls': 'list[]',
 'DatetimeYdus[lambda: date]._decode(None)': 'raise builtins.AttributeError '
                                             'args=("\'datetime.date\' object has no attribute '
                                             '\'date\'",) str="\'datetime.date\' object has no '
                                             'attribute \'date\'" cause=NoneType context=NoneType '
                                             'suppress=False',
 'DatetimeYdus[lambda: date]._decode(None) calls': 'list[]',
 'DatetimeYdus[lambda: date].parse': 'raise builtins.AttributeError args=("\'datetime.date\' '
                                     'object has no attribute \'date\'",) str="\'datetime.date\' '
                                     'object has no attribute \'date\'" cause=NoneType '
                                     'context=NoneType suppress=False',
 'DatetimeYdus[lambda: date].parse short': "raise construct.core.StreamError args=('Error in path "
                                           '(parsing)\\nstream read less than specified amount, '
                                           "expected 8, found 2',) str='Error in path "
                                           '(parsing)\\nstream read less than specified amount, '
                                           "expected 8, found 2' cause=NoneType context=NoneType "
                                           'suppress=False',
 'DatetimeYdus[lambda: no args] keeps reference': 'bool:True',
 'DatetimeYdus[lambda: no args]._decode without context': 'raise builtins.TypeError '
                                                          "args=('observe.<locals>.<lambda>() "
                                                          'takes 0 positional arguments but 1 was '
                                                          "given',) "
                                                          "str='observe.<locals>.<lambda>() takes "
                                                          "0 positional arguments but 1 was given' "
                                                          'cause=NoneType context=NoneType '
                                                          'suppress=False',
 "DatetimeYdus[lambda: no args]._decode('1')": 'raise builtins.TypeError '
                                               "args=('observe.<locals>.<lambda>() takes 0 "
                                               "positional arguments but 1 was given',) "
                                               "str='observe.<locals>.<lambda>() takes 0 "
                                               "positional arguments but 1 was given' "
                                               'cause=NoneType context=NoneType suppress=False',
 "DatetimeYdus[lambda: no args]._decode('1') calls": 'list[]',
 'DatetimeYdus[lambda: no args]._decode(-1)': 'raise builtins.TypeError '
                                              "args=('observe.<locals>.<lambda>() takes 0 "
                                              "positional arguments but 1 was given',) "
                                              "str='observe.<locals>.<lambda>() takes 0 positional "
                                              "arguments but 1 was given' cause=NoneType "
                                              'context=NoneType suppress=False',
 'DatetimeYdus[lambda: no args]._decode(-1) calls': 'list[]',
 'DatetimeYdus[lambda: no args]._decode(0)': 'raise builtins.TypeError '
                                             "args=('observe.<locals>.<lambda>() takes 0 "
                                             "positional arguments but 1 was given',) "
                                             "str='observe.<locals>.<lambda>() takes 0 positional "
                                             "arguments but 1 was given' cause=NoneType "
                                             'context=NoneType suppress=False',
 'DatetimeYdus[lambda: no args]._decode(0) calls': 'list[]',
 'DatetimeYdus[lambda: no args]._decode(1)': 'raise builtins.TypeError '
                                             "args=('observe.<locals>.<lambda>() takes 0 "
                                             "positional arguments but 1 was given',) "
                                             "str='observe.<locals>.<lambda>() takes 0 positional "
                                             "arguments but 1 was given' cause=NoneType "
                                             'context=NoneType suppress=False',
 'DatetimeYdus[lambda: no args]._decode(1) calls': 'list[]',
 'DatetimeYdus[lambda: no args]._decode(1.5)': 'raise builtins.TypeError '
                                               "args=('observe.<locals>.<lambda>() takes 0 "
                                               "positional arguments but 1 was given',) "
                                               "str='observe.<locals>.<lambda>() takes 0 "
                                               "positional arguments but 1 was given' "
                                               'cause=NoneType context=NoneType suppress=False',
 'DatetimeYdus[lambda: no args]._decode(1.5) calls': 'list[]',
 'DatetimeYdus[lambda: no args]._decode(2**62)': 'raise builtins.TypeError '
                                                 "args=('observe.<locals>.<lambda>() takes 0 "
                                                 "positional arguments but 1 was given',) "
                                                 "str='observe.<locals>.<lambda>() takes 0 "
                                                 "positional arguments but 1 was given' "
                                                 'cause=NoneType context=NoneType suppress=False',
 'DatetimeYdus[lambda: no args]._decode(2**62) calls': 'list[]',
 'DatetimeYdus[lambda: no args]._decode(86399999999)': 'raise builtins.TypeError '
                                                       "args=('observe.<locals>.<lambda>() takes 0 "
                                                       "positional arguments but 1 was given',) "
                                                       "str='observe.<locals>.<lambda>() takes 0 "
                                                       "positional arguments but 1 was given' "
                                                       'cause=NoneType context=NoneType '
                                                       'suppress=False',
 'DatetimeYdus[lambda: no args]._decode(86399999999) calls': 'list[]',
 'DatetimeYdus[lambda: no args]._decode(86400000000)': 'raise builtins.TypeError '
                                                       "args=('observe.<locals>.<lambda>() takes 0 "
                                                       "positional arguments but 1 was given',) "
                                                       "str='observe.<locals>.<lambda>() takes 0 "
                                                       "positional arguments but 1 was given' "
                                                       'cause=NoneType context=NoneType '
                                                       'suppress=False',
 'DatetimeYdus[lambda: no args]._decode(86400000000) calls': 'list[]',
 'DatetimeYdus[lambda: no args]._decode(None)': 'raise builtins.TypeError '
                                                "args=('observe.<locals>.<lambda>() takes 0 "
                                                "positional arguments but 1 was given',) "
                                                "str='observe.<locals>.<lambda>() takes 0 "
                                                "positional arguments but 1 was given' "
                                                'cause=NoneType context=NoneType suppress=False',
 'DatetimeYdus[lambda: no args]._decode(None) calls': 'list[]',
 'DatetimeYdus[lambda: no args].parse': 'raise builtins.TypeError '
                                        "args=('observe.<locals>.<lambda>() takes 0 positional "
                                        "arguments but 1 was given',) "
                                        "str='observe.<locals>.<lambda>() takes 0 positional "
                                        "arguments but 1 was given' cause=NoneType "
                                        'context=NoneType suppress=False',
 'DatetimeYdus[lambda: no args].parse short': "raise construct.core.StreamError args=('Error in "
                                              'path (parsing)\\nstream read less than specified '
                                              "amount, expected 8, found 2',) str='Error in path "
                                              '(parsing)\\nstream read less than specified amount, '
                                              "expected 8, found 2' cause=NoneType "
                                              'context=NoneType suppress=False',
 'DatetimeYdus[lambda: raises] keeps reference': 'bool:True',
 'DatetimeYdus[lambda: raises]._decode without context': 'raise builtins.ZeroDivisionError '
                                                         "args=('division by zero',) str='division "
                                                         "by zero' cause=NoneType context=NoneType "
                                                         'suppress=False',
 "DatetimeYdus[lambda: raises]._decode('1')": "raise builtins.ZeroDivisionError args=('division by "
                                              "zero',) str='division by zero' cause=NoneType "
                                              'context=NoneType suppress=False',
 "DatetimeYdus[lambda: raises]._decode('1') calls": 'list[]',
 'DatetimeYdus[lambda: raises]._decode(-1)': "raise builtins.ZeroDivisionError args=('division by "
                                             "zero',) str='division by zero' cause=NoneType "
                                             'context=NoneType suppress=False',
 'DatetimeYdus[lambda: raises]._decode(-1) calls': 'list[]',
 'DatetimeYdus[lambda: raises]._decode(0)': "raise builtins.ZeroDivisionError args=('division by "
                                            "zero',) str='division by zero' cause=NoneType "
                                            'context=NoneType suppress=False',
 'DatetimeYdus[lambda: raises]._decode(0) calls': 'list[]',
 'DatetimeYdus[lambda: raises]._decode(1)': "raise builtins.ZeroDivisionError args=('division by "
                                            "zero',) str='division by zero' cause=NoneType "
                                            'context=NoneType suppress=False',
 'DatetimeYdus[lambda: raises]._decode(1) calls': 'list[]',
 'DatetimeYdus[lambda: raises]._decode(1.5)': "raise builtins.ZeroDivisionError args=('division by "
                                              "zero',) str='division by zero' cause=NoneType "
                                              'context=NoneType suppress=False',
 'DatetimeYdus[lambda: raises]._decode(1.5) calls': 'list[]',
 'DatetimeYdus[lambda: raises]._decode(2**62)': "raise builtins.ZeroDivisionError args=('division "
                                                "by zero',) str='division by zero' cause=NoneType "
                                                'context=NoneType suppress=False',
 'DatetimeYdus[lambda: raises]._decode(2**62) calls': 'list[]',
 'DatetimeYdus[lambda: raises]._decode(86399999999)': 'raise builtins.ZeroDivisionError '
                                                      "args=('division by zero',) str='division by "
                                                      "zero' cause=NoneType context=NoneType "
                                                      'suppress=False',
 'DatetimeYdus[lambda: raises]._decode(86399999999) calls': 'list[]',
 'DatetimeYdus[lambda: raises]._decode(86400000000)': 'raise builtins.ZeroDivisionError '
                                                      "args=('division by zero',) str='division by "
                                                      "zero' cause=NoneType context=NoneType "
                                                      'suppress=False',
 'DatetimeYdus[lambda: raises]._decode(86400000000) calls': 'list[]',
 'DatetimeYdus[lambda: raises]._decode(None)': "raise builtins.ZeroDivisionError args=('division "
                                               "by zero',) str='division by zero' cause=NoneType "
                                               'context=NoneType suppress=False',
 'DatetimeYdus[lambda: raises]._decode(None) calls': 'list[]',
 'DatetimeYdus[lambda: raises].parse': "raise builtins.ZeroDivisionError args=('division by "
                                       "zero',) str='division by zero' cause=NoneType "
                                       'context=NoneType suppress=False',
 'DatetimeYdus[lambda: raises].parse short': "raise construct.core.StreamError args=('Error in "
                                             'path (parsing)\\nstream read less than specified '
                                             "amount, expected 8, found 2',) str='Error in path "
                                             '(parsing)\\nstream read less than specified amount, '
                                             "expected 8, found 2' cause=NoneType context=NoneType "
                                             'suppress=False',
 'DatetimeYdus[midnight] keeps reference': 'bool:True',
 'DatetimeYdus[midnight]._decode without context': 'ok datetime:datetime.datetime(2020, 5, 17, 0, '
                                                   '0, 0, 5)',
 "DatetimeYdus[midnight]._decode('1')": "raise builtins.TypeError args=('unsupported type for "
                                        "timedelta microseconds component: str',) str='unsupported "
                                        "type for timedelta microseconds component: str' "
                                        'cause=NoneType context=NoneType suppress=False',
 "DatetimeYdus[midnight]._decode('1') calls": 'list[]',
 'DatetimeYdus[midnight]._decode(-1)': 'ok datetime:datetime.datetime(2020, 5, 16, 23, 59, 59, '
                                       '999999)',
 'DatetimeYdus[midnight]._decode(-1) calls': 'list[]',
 'DatetimeYdus[midnight]._decode(0)': 'ok datetime:datetime.datetime(2020, 5, 17, 0, 0)',
 'DatetimeYdus[midnight]._decode(0) calls': 'list[]',
 'DatetimeYdus[midnight]._decode(1)': 'ok datetime:datetime.datetime(2020, 5, 17, 0, 0, 0, 1)',
 'DatetimeYdus[midnight]._decode(1) calls': 'list[]',
 'DatetimeYdus[midnight]._decode(1.5)': 'ok datetime:datetime.datetime(2020, 5, 17, 0, 0, 0, 2)',
 'DatetimeYdus[midnight]._decode(1.5) calls': 'list[]',
 'DatetimeYdus[midnight]._decode(2**62)': "raise builtins.OverflowError args=('date value out of "
                                          "range',) str='date value out of range' cause=NoneType "
                                          'context=NoneType suppress=False',
 'DatetimeYdus[midnight]._decode(2**62) calls': 'list[]',
 'DatetimeYdus[midnight]._decode(86399999999)': 'ok datetime:datetime.datetime(2020, 5, 17, 23, '
                                                '59, 59, 999999)',
 'DatetimeYdus[midnight]._decode(86399999999) calls': 'list[]',
 'DatetimeYdus[midnight]._decode(86400000000)': 'ok datetime:datetime.datetime(2020, 5, 18, 0, 0)',
 'DatetimeYdus[midnight]._decode(86400000000) calls': 'list[]',
 'DatetimeYdus[midnight]._decode(None)': "raise builtins.TypeError args=('unsupported type for "
                                         "timedelta microseconds component: NoneType',) "
                                         "str='unsupported type for timedelta microseconds "
                                         "component: NoneType' cause=NoneType context=NoneType "
                                         'suppress=False',
 'DatetimeYdus[midnight]._decode(None) calls': 'list[]',
 'DatetimeYdus[midnight].parse': 'ok datetime:datetime.datetime(2020, 5, 17, 0, 0, 1, 1)',
 'DatetimeYdus[midnight].parse short': "raise construct.core.StreamError args=('Error in path "
                                       '(parsing)\\nstream read less than specified amount, '
                                       "expected 8, found 2',) str='Error in path "
                                       '(parsing)\\nstream read less than specified amount, '
                                       "expected 8, found 2' cause=NoneType context=NoneType "
                                       'suppress=False',
 'DatetimeYdus[not a date] keeps reference': 'bool:True',
 'DatetimeYdus[not a date]._decode without context': 'raise builtins.AttributeError '
                                                     'args=("\'NotADate\' object has no attribute '
                                                     '\'date\'",) str="\'NotADate\' object has no '
                                                     'attribute \'date\'" cause=NoneType '
                                                     'context=NoneType suppress=False',
 "DatetimeYdus[not a date]._decode('1')": 'raise builtins.AttributeError args=("\'NotADate\' '
                                          'object has no attribute \'date\'",) str="\'NotADate\' '
                                          'object has no attribute \'date\'" cause=NoneType '
                                          'context=NoneType suppress=False',
 "DatetimeYdus[not a date]._decode('1') calls": 'list[]',
 'DatetimeYdus[not a date]._decode(-1)': 'raise builtins.AttributeError args=("\'NotADate\' object '
                                         'has no attribute \'date\'",) str="\'NotADate\' object '
                                         'has no attribute \'date\'" cause=NoneType '
                                         'context=NoneType suppress=False',
 'DatetimeYdus[not a date]._decode(-1) calls': 'list[]',
 'DatetimeYdus[not a date]._decode(0)': 'raise builtins.AttributeError args=("\'NotADate\' object '
                                        'has no attribute \'date\'",) str="\'NotADate\' object has '
                                        'no attribute \'date\'" cause=NoneType context=NoneType '
                                        'suppress=False',
 'DatetimeYdus[not a date]._decode(0) calls': 'list[]',
 'DatetimeYdus[not a date]._decode(1)': 'raise builtins.AttributeError args=("\'NotADate\' object '
                                        'has no attribute \'date\'",) str="\'NotADate\' object has '
                                        'no attribute \'date\'" cause=NoneType context=NoneType '
                                        'suppress=False',
 'DatetimeYdus[not a date]._decode(1) calls': 'list[]',
 'DatetimeYdus[not a date]._decode(1.5)': 'raise builtins.AttributeError args=("\'NotADate\' '
                                          'object has no attribute \'date\'",) str="\'NotADate\' '
                                          'object has no attribute \'date\'" cause=NoneType '
                                          'context=NoneType suppress=False',
 'DatetimeYdus[not a date]._decode(1.5) calls': 'list[]',
 'DatetimeYdus[not a date]._decode(2**62)': 'raise builtins.AttributeError args=("\'NotADate\' '
                                            'object has no attribute \'date\'",) str="\'NotADate\' '
                                            'object has no attribute \'date\'" cause=NoneType '
                                            'context=NoneType suppress=False',
 'DatetimeYdus[not a date]._decode(2**62) calls': 'list[]',
 'DatetimeYdus[not a date]._decode(86399999999)': 'raise builtins.AttributeError '
                                                  'args=("\'NotADate\' object has no attribute '
                                                  '\'date\'",) str="\'NotADate\' object has no '
                                                  'attribute \'date\'" cause=NoneType '
                                                  'context=NoneType suppress=False',
 'DatetimeYdus[not a date]._decode(86399999999) calls': 'list[]',
 'DatetimeYdus[not a date]._decode(86400000000)': 'raise builtins.AttributeError '
                                                  'args=("\'NotADate\' object has no attribute '
                                                  '\'date\'",) str="\'NotADate\' object has no '
                                                  'attribute \'date\'" cause=NoneType '
                                                  'context=NoneType suppress=False',
 'DatetimeYdus[not a date]._decode(86400000000) calls': 'list[]',
 'DatetimeYdus[not a date]._decode(None)': 'raise builtins.AttributeError args=("\'NotADate\' '
                                           'object has no attribute \'date\'",) str="\'NotADate\' '
                                           'object has no attribute \'date\'" cause=NoneType '
                                           'context=NoneType suppress=False',
 'DatetimeYdus[not a date]._decode(None) calls': 'list[]',
 'DatetimeYdus[not a date].parse': 'raise builtins.AttributeError args=("\'NotADate\' object has '
                                   'no attribute \'date\'",) str="\'NotADate\' object has no '
                                   'attribute \'date\'" cause=NoneType context=NoneType '
                                   'suppress=False',
 'DatetimeYdus[not a date].parse short': "raise construct.core.StreamError args=('Error in path "
                                         '(parsing)\\nstream read less than specified amount, '
                                         "expected 8, found 2',) str='Error in path "
                                         '(parsing)\\nstream read less than specified amount, '
                                         "expected 8, found 2' cause=NoneType context=NoneType "
                                         'suppress=False',
 'DatetimeYdus[string] keeps reference': 'bool:True',
 'DatetimeYdus[string]._decode without context': 'raise builtins.AttributeError args=("\'str\' '
                                                 'object has no attribute \'date\'",) str="\'str\' '
                                                 'object has no attribute \'date\'" cause=NoneType '
                                                 'context=NoneType suppress=False',
 "DatetimeYdus[string]._decode('1')": 'raise builtins.AttributeError args=("\'str\' object has no '
                                      'attribute \'date\'",) str="\'str\' object has no attribute '
                                      '\'date\'" cause=NoneType context=NoneType suppress=False',
 "DatetimeYdus[string]._decode('1') calls": 'list[]',
 'DatetimeYdus[string]._decode(-1)': 'raise builtins.AttributeError args=("\'str\' object has no '
                                     'attribute \'date\'",) str="\'str\' object has no attribute '
                                     '\'date\'" cause=NoneType context=NoneType suppress=False',
 'DatetimeYdus[string]._decode(-1) calls': 'list[]',
 'DatetimeYdus[string]._decode(0)': 'raise builtins.AttributeError args=("\'str\' object has no '
                                    'attribute \'date\'",) str="\'str\' object has no attribute '
                                    '\'date\'" cause=NoneType context=NoneType suppress=False',
 'DatetimeYdus[string]._decode(0) calls': 'list[]',
 'DatetimeYdus[string]._decode(1)': 'raise builtins.AttributeError args=("\'str\' object has no '
                                    'attribute \'date\'",) str="\'str\' object has no attribute '
                                    '\'date\'" cause=NoneType context=NoneType suppress=False',
 'DatetimeYdus[string]._decode(1) calls': 'list[]',
 'DatetimeYdus[string]._decode(1.5)': 'raise builtins.AttributeError args=("\'str\' object has no '
                                      'attribute \'date\'",) str="\'str\' object has no attribute '
                                      '\'date\'" cause=NoneType context=NoneType suppress=False',
 'DatetimeYdus[string]._decode(1.5) calls': 'list[]',
 'DatetimeYdus[string]._decode(2**62)': 'raise builtins.AttributeError args=("\'str\' object has '
                                        'no attribute \'date\'",) str="\'str\' object has no '
                                        'attribute \'date\'" cause=NoneType context=NoneType '
                                        'suppress=False',
 'DatetimeYdus[string]._decode(2**62) calls': 'list[]',
 'DatetimeYdus[string]._decode(86399999999)': 'raise builtins.AttributeError args=("\'str\' object '
                                              'has no attribute \'date\'",) str="\'str\' object '
                                              'has no attribute \'date\'" cause=NoneType '
                                              'context=NoneType suppress=False',
 'DatetimeYdus[string]._decode(86399999999) calls': 'list[]',
 'DatetimeYdus[string]._decode(86400000000)': 'raise builtins.AttributeError args=("\'str\' object '
                                              'has no attribute \'date\'",) str="\'str\' object '
                                              'has no attribute \'date\'" cause=NoneType '
                                              'context=NoneType suppress=False',
 'DatetimeYdus[string]._decode(86400000000) calls': 'list[]',
 'DatetimeYdus[string]._decode(None)': 'raise builtins.AttributeError args=("\'str\' object has no '
                                       'attribute \'date\'",) str="\'str\' object has no attribute '
                                       '\'date\'" cause=NoneType context=NoneType suppress=False',
 'DatetimeYdus[string]._decode(None) calls': 'list[]',
 'DatetimeYdus[string].parse': 'raise builtins.AttributeError args=("\'str\' object has no '
                               'attribute \'date\'",) str="\'str\' object has no attribute '
                               '\'date\'" cause=NoneType context=NoneType suppress=False',
 'DatetimeYdus[string].parse short': "raise construct.core.StreamError args=('Error in path "
                                     '(parsing)\\nstream read less than specified amount, expected '
                                     "8, found 2',) str='Error in path (parsing)\\nstream read "
                                     "less than specified amount, expected 8, found 2' "
                                     'cause=NoneType context=NoneType suppress=False',
 'DatetimeYdus[this.date] keeps reference': 'bool:True',
 'DatetimeYdus[this.date]._decode without context': 'raise builtins.TypeError args=("\'NoneType\' '
                                                    'object is not subscriptable",) '
                                                    'str="\'NoneType\' object is not '
                                                    'subscriptable" cause=NoneType '
                                                    'context=NoneType suppress=False',
 "DatetimeYdus[this.date]._decode('1')": "raise builtins.TypeError args=('unsupported type for "
                                         "timedelta microseconds component: str',) "
                                         "str='unsupported type for timedelta microseconds "
                                         "component: str' cause=NoneType context=NoneType "
                                         'suppress=False',
 "DatetimeYdus[this.date]._decode('1') calls": 'list[]',
 'DatetimeYdus[this.date]._decode(-1)': 'ok datetime:datetime.datetime(2018, 3, 3, 23, 59, 59, '
                                        '999999)',
 'DatetimeYdus[this.date]._decode(-1) calls': 'list[]',
 'DatetimeYdus[this.date]._decode(0)': 'ok datetime:datetime.datetime(2018, 3, 4, 0, 0)',
 'DatetimeYdus[this.date]._decode(0) calls': 'list[]',
 'DatetimeYdus[this.date]._decode(1)': 'ok datetime:datetime.datetime(2018, 3, 4, 0, 0, 0, 1)',
 'DatetimeYdus[this.date]._decode(1) calls': 'list[]',
 'DatetimeYdus[this.date]._decode(1.5)': 'ok datetime:datetime.datetime(2018, 3, 4, 0, 0, 0, 2)',
 'DatetimeYdus[this.date]._decode(1.5) calls': 'list[]',
 'DatetimeYdus[this.date]._decode(2**62)': "raise builtins.OverflowError args=('date value out of "
                                           "range',) str='date value out of range' cause=NoneType "
                                           'context=NoneType suppress=False',
 'DatetimeYdus[this.date]._decode(2**62) calls': 'list[]',
 'DatetimeYdus[this.date]._decode(86399999999)': 'ok datetime:datetime.datetime(2018, 3, 4, 23, '
                                                 '59, 59, 999999)',
 'DatetimeYdus[this.date]._decode(86399999999) calls': 'list[]',
 'DatetimeYdus[this.date]._decode(86400000000)': 'ok datetime:datetime.datetime(2018, 3, 5, 0, 0)',
 'DatetimeYdus[this.date]._decode(86400000000) calls': 'list[]',
 'DatetimeYdus[this.date]._decode(None)': "raise builtins.TypeError args=('unsupported type for "
                                          "timedelta microseconds component: NoneType',) "
                                          "str='unsupported type for timedelta microseconds "
                                          "component: NoneType' cause=NoneType context=NoneType "
                                          'suppress=False',
 'DatetimeYdus[this.date]._decode(None) calls': 'list[]',
 'DatetimeYdus[this.date].parse': 'ok datetime:datetime.datetime(2001, 2, 3, 0, 0, 1, 1)',
 'DatetimeYdus[this.date].parse short': "raise construct.core.StreamError args=('Error in path "
                                        '(parsing)\\nstream read less than specified amount, '
                                        "expected 8, found 2',) str='Error in path "
                                        '(parsing)\\nstream read less than specified amount, '
                                        "expected 8, found 2' cause=NoneType context=NoneType "
                                        'suppress=False',
 'DatetimeYdus[this.missing] keeps reference': 'bool:True',
 'DatetimeYdus[this.missing]._decode without context': 'raise builtins.TypeError '
                                                       'args=("\'NoneType\' object is not '
                                                       'subscriptable",) str="\'NoneType\' object '
                                                       'is not subscriptable" cause=NoneType '
                                                       'context=NoneType suppress=False',
 "DatetimeYdus[this.missing]._decode('1')": "raise builtins.KeyError args=('missing',) "
                                            'str="\'missing\'" cause=NoneType context=NoneType '
                                            'suppress=False',
 "DatetimeYdus[this.missing]._decode('1') calls": 'list[]',
 'DatetimeYdus[this.missing]._decode(-1)': "raise builtins.KeyError args=('missing',) "
                                           'str="\'missing\'" cause=NoneType context=NoneType '
                                           'suppress=False',
 'DatetimeYdus[this.missing]._decode(-1) calls': 'list[]',
 'DatetimeYdus[this.missing]._decode(0)': "raise builtins.KeyError args=('missing',) "
                                          'str="\'missing\'" cause=NoneType context=NoneType '
                                          'suppress=False',
 'DatetimeYdus[this.missing]._decode(0) calls': 'list[]',
 'DatetimeYdus[this.missing]._decode(1)': "raise builtins.KeyError args=('missing',) "
                                          'str="\'missing\'" cause=NoneType context=NoneType '
                                          'suppress=False',
 'DatetimeYdus[this.missing]._decode(1) calls': 'list[]',
 'DatetimeYdus[this.missing]._decode(1.5)': "raise builtins.KeyError args=('missing',) "
                                            'str="\'missing\'" cause=NoneType context=NoneType '
                                            'suppress=False',
 'DatetimeYdus[this.missing]._decode(1.5) calls': 'list[]',
 'DatetimeYdus[this.missing]._decode(2**62)': "raise builtins.KeyError args=('missing',) "
                                              'str="\'missing\'" cause=NoneType context=NoneType '
                                              'suppress=False',
 'DatetimeYdus[this.missing]._decode(2**62) calls': 'list[]',
 'DatetimeYdus[this.missing]._decode(86399999999)': "raise builtins.KeyError args=('missing',) "
                                                    'str="\'missing\'" cause=NoneType '
                                                    'context=NoneType suppress=False',
 'DatetimeYdus[this.missing]._decode(86399999999) calls': 'list[]',
 'DatetimeYdus[this.missing]._decode(86400000000)': "raise builtins.KeyError args=('missing',) "
                                                    'str="\'missing\'" cause=NoneType '
                                                    'context=NoneType suppress=False',
 'DatetimeYdus[this.missing]._decode(86400000000) calls': 'list[]',
 'DatetimeYdus[this.missing]._decode(None)': "raise builtins.KeyError args=('missing',) "
                                             'str="\'missing\'" cause=NoneType context=NoneType '
                                             'suppress=False',
 'DatetimeYdus[this.missing]._decode(None) calls': 'list[]',
 'DatetimeYdus[this.missing].parse': "raise builtins.KeyError args=('missing',) "
                                     'str="\'missing\'" cause=NoneType context=NoneType '
                                     'suppress=False',
 'DatetimeYdus[this.missing].parse short': "raise construct.core.StreamError args=('Error in path "
                                           '(parsing)\\nstream read less than specified amount, '
                                           "expected 8, found 2',) str='Error in path "
                                           '(parsing)\\nstream read less than specified amount, '
                                           "expected 8, found 2' cause=NoneType context=NoneType "
                                           'suppress=False',
 'PaddedString identity': "list[str:'PaddedString', str:'PaddedString', "
                          "str:'ceos_alos2.datatypes']",
 'PaddedString instances have their own subcon': 'bool:True',
 'PaddedString mro': "list[str:'ceos_alos2.datatypes.PaddedString', str:'construct.core.Adapter', "
                     "str:'construct.core.Subconstruct', str:'construct.core.Construct', "
                     "str:'builtins.object']",
 "PaddedString('4') construction": "ok str:'PaddedString'",
 "PaddedString('4') parse": 'raise builtins.TypeError args=("\'<\' not supported between instances '
                            'of \'str\' and \'int\'",) str="\'<\' not supported between instances '
                            'of \'str\' and \'int\'" cause=NoneType context=NoneType '
                            'suppress=False',
 "PaddedString('4') sizeof": 'raise builtins.TypeError args=("\'<\' not supported between '
                             'instances of \'str\' and \'int\'",) str="\'<\' not supported between '
                             'instances of \'str\' and \'int\'" cause=NoneType context=NoneType '
                             'suppress=False',
 'PaddedString() construction': 'raise builtins.TypeError args=("PaddedString.__init__() missing 1 '
                                'required positional argument: \'n_bytes\'",) '
                                'str="PaddedString.__init__() missing 1 required positional '
                                'argument: \'n_bytes\'" cause=NoneType context=NoneType '
                                'suppress=False',
 'PaddedString(-1) construction': "ok str:'PaddedString'",
 'PaddedString(-1) parse': "raise construct.core.PaddingError args=('Error in path "
                           "(parsing)\\nlength cannot be negative',) str='Error in path "
                           "(parsing)\\nlength cannot be negative' cause=NoneType context=NoneType "
                           'suppress=False',
 'PaddedString(-1) sizeof': "raise construct.core.PaddingError args=('Error in path "
                            "(sizeof)\\nlength cannot be negative',) str='Error in path "
                            "(sizeof)\\nlength cannot be negative' cause=NoneType context=NoneType "
                            'suppress=False',
 'PaddedString(0) sizeof': 'ok int:0',
 'PaddedString(0) subcon': "ok list[str:'StringEncoded', int:0, str:'ascii']",
 "PaddedString(0).parse(b'')": "ok str:''",
 'PaddedString(1) sizeof': 'ok int:1',
 'PaddedString(1) subcon': "ok list[str:'StringEncoded', int:1, str:'ascii']",
 "PaddedString(12).parse(b'CEOS-SAR    ')": "ok str:'CEOS-SAR'",
 'PaddedString(16) sizeof': 'ok int:16',
 'PaddedString(16) subcon': "ok list[str:'StringEncoded', int:16, str:'ascii']",
 "PaddedString(2).parse(b'A ')": "ok str:'A'",
 'PaddedString(2.0) construction': "ok str:'PaddedString'",
 'PaddedString(2.0) parse': "raise construct.core.StreamError args=('Error in path "
                            "(parsing)\\nstream.read() failed, requested 2.0 bytes',) str='Error "
                            "in path (parsing)\\nstream.read() failed, requested 2.0 bytes' "
                            'cause=NoneType context=TypeError suppress=False',
 'PaddedString(2.0) sizeof': 'ok float:2.0',
 'PaddedString(260) sizeof': 'ok int:260',
 'PaddedString(260) subcon': "ok list[str:'StringEncoded', int:260, str:'ascii']",
 'PaddedString(4) sizeof': 'ok int:4',
 'PaddedString(4) subcon': "ok list[str:'StringEncoded', int:4, str:'ascii']",
 "PaddedString(4).parse(b'    ')": "ok str:''",
 "PaddedString(4).parse(b' abc')": "ok str:'abc'",
 "PaddedString(4).parse(b'ALOS')": "ok str:'ALOS'",
 "PaddedString(4).parse(b'\\tab\\n')": "ok str:'ab'",
 "PaddedString(4).parse(b'\\x00\\x00\\x00\\x00')": "ok str:''",
 "PaddedString(4).parse(b'\\x00ab ')": "ok str:'\\x00ab'",
 "PaddedString(4).parse(b'\\xffabc')": 'raise construct.core.StringError args=("cannot use '
                                       'encoding \'ascii\' to decode b\'\\\\xffabc\'",) '
                                       'str="cannot use encoding \'ascii\' to decode '
                                       'b\'\\\\xffabc\'" cause=NoneType context=UnicodeDecodeError '
                                       'suppress=False',
 "PaddedString(4).parse(b'a b ')": "ok str:'a b'",
 "PaddedString(4).parse(b'ab')": "raise construct.core.StreamError args=('Error in path "
                                 '(parsing)\\nstream read less than specified amount, expected 4, '
                                 "found 2',) str='Error in path (parsing)\\nstream read less than "
                                 "specified amount, expected 4, found 2' cause=NoneType "
                                 'context=NoneType suppress=False',
 "PaddedString(4).parse(b'ab\\x00\\x00')": "ok str:'ab'",
 "PaddedString(4).parse(b'abc ')": "ok str:'abc'",
 'PaddedString(None) construction': "ok str:'PaddedString'",
 'PaddedString(None) parse': 'raise builtins.TypeError args=("\'<\' not supported between '
                             'instances of \'NoneType\' and \'int\'",) str="\'<\' not supported '
                             'between instances of \'NoneType\' and \'int\'" cause=NoneType '
                             'context=NoneType suppress=False',
 'PaddedString(None) sizeof': 'raise builtins.TypeError args=("\'<\' not supported between '
                              'instances of \'NoneType\' and \'int\'",) str="\'<\' not supported '
                              'between instances of \'NoneType\' and \'int\'" cause=NoneType '
                              'context=NoneType suppress=False',
 'PaddedString(n_bytes=2) parse': "ok str:'7'",
 'PaddedString(this.n) parse': "ok Container(n=int:3, value=str:'42')",
 "PaddedString._decode('   ')": "ok str:''",
 "PaddedString._decode(' 12 ')": "ok str:'12'",
 "PaddedString._decode('')": "ok str:''",
 "PaddedString._decode('\\u00a012\\u2003')": "ok str:'12'",
 "PaddedString._decode('\\u00a0\\u2003')": "ok str:''",
 "PaddedString._decode('\\u0661\\u0662')": "ok str:'١٢'",
 "PaddedString._decode('\\x00')": "ok str:'\\x00'",
 'PaddedString._decode(12)': 'raise builtins.AttributeError args=("\'int\' object has no attribute '
                             '\'strip\'",) str="\'int\' object has no attribute \'strip\'" '
                             'cause=NoneType context=NoneType suppress=False',
 'PaddedString._decode(None)': 'raise builtins.AttributeError args=("\'NoneType\' object has no '
                               'attribute \'strip\'",) str="\'NoneType\' object has no attribute '
                               '\'strip\'" cause=NoneType context=NoneType suppress=False',
 "PaddedString._decode(Text('    '))": "ok str:''",
 "PaddedString._decode(Text('    ')) calls": "list[tuple[str:'strip', tuple[]]]",
 "PaddedString._decode(Text(' 42 '))": "ok str:'42'",
 "PaddedString._decode(Text(' 42 ')) calls": "list[tuple[str:'strip', tuple[]]]",
 "PaddedString._decode(Weird(''))": "ok str:''",
 "PaddedString._decode(Weird('5'))": "ok str:'5'",
 'PaddedString._decode(Weird(0))': 'ok int:0',
 'PaddedString._decode(Weird(0.0))': 'ok float:0.0',
 'PaddedString._decode(Weird(2.75))': 'ok float:2.75',
 'PaddedString._decode(Weird(3))': 'ok int:3',
 'PaddedString._decode(Weird(None))': 'ok NoneType:None',
 'PaddedString._decode(Weird([1]))': 'ok list[int:1]',
 'PaddedString._decode(Weird([]))': 'ok list[]',
 "PaddedString._decode(Weird(b''))": "ok bytes:b''",
 "PaddedString._decode(b'   ')": "ok bytes:b''",
 "PaddedString._decode(b' 12 ')": "ok bytes:b'12'",
 "PaddedString._decode(b'')": "ok bytes:b''",
 "PaddedString._decode(bytearray(b' 3 '))": "ok bytearray:bytearray(b'3')",
 'PaddedString_ still importable': 'bool:True',
 'construct version': "str:'2.10.70'",
 'datetime record': 'raise builtins.KeyError args=(\'date\',) str="\'date\'" cause=NoneType '
                    'context=NoneType suppress=False',
 'datetime record (good part)': 'ok Container(date=datetime:datetime.datetime(2020, 2, 29, 0, 0, '
                                '12, 345000), precise=datetime:datetime.datetime(2020, 2, 29, 0, '
                                '0, 1, 1), nested=Container(again=datetime:datetime.datetime(2020, '
                                '2, 29, 23, 59, 59, 999999)))',
 'datetime record (good part) embedded': 'ok Container(skip=int:9, '
                                         'record=Container(date=datetime:datetime.datetime(2020, '
                                         '2, 29, 0, 0, 12, 345000), '
                                         'precise=datetime:datetime.datetime(2020, 2, 29, 0, 0, 1, '
                                         '1), '
                                         'nested=Container(again=datetime:datetime.datetime(2020, '
                                         '2, 29, 23, 59, 59, 999999))))',
 'datetime record truncated': "raise construct.core.StreamError args=('Error in path (parsing) -> "
                              'precise\\nstream read less than specified amount, expected 8, found '
                              "2',) str='Error in path (parsing) -> precise\\nstream read less "
                              "than specified amount, expected 8, found 2' cause=NoneType "
                              'context=NoneType suppress=False',
 'datetime record without last': "raise construct.core.StreamError args=('Error in path (parsing) "
                                 '-> broken -> again\\nstream read less than specified amount, '
                                 "expected 1, found 0',) str='Error in path (parsing) -> broken -> "
                                 'again\\nstream read less than specified amount, expected 1, '
                                 "found 0' cause=NoneType context=NoneType suppress=False",
 'is adapter': 'list[bool:True, bool:True]',
 "record.parse(b'                  ')": "ok Container(count=int:-1, scale=float:nan, name=str:'', "
                                        'inner=Container(value=int:-1))',
 "record.parse(b'  12    1,25ALOS 7')": 'raise builtins.ValueError args=("could not convert string '
                                        'to float: \'1,25\'",) str="could not convert string to '
                                        'float: \'1,25\'" cause=NoneType context=NoneType '
                                        'suppress=False',
 "record.parse(b'  12    1.25ALOS 7')": 'ok Container(count=int:12, scale=float:1.25, '
                                        "name=str:'ALOS', inner=Container(value=int:7))",
 "record.parse(b'  12    1.25ALOS x')": 'raise builtins.ValueError args=("invalid literal for '
                                        'int() with base 10: \'x\'",) str="invalid literal for '
                                        'int() with base 10: \'x\'" cause=NoneType '
                                        'context=NoneType suppress=False',
 "record.parse(b'  12    1.25ALOS')": "raise construct.core.StreamError args=('Error in path "
                                      '(parsing) -> inner -> value\\nstream read less than '
                                      "specified amount, expected 2, found 0',) str='Error in path "
                                      '(parsing) -> inner -> value\\nstream read less than '
                                      "specified amount, expected 2, found 0' cause=NoneType "
                                      'context=NoneType suppress=False',
 "record.parse(b'  12    1.25AL\\xffS 7')": 'raise construct.core.StringError args=("cannot use '
                                            'encoding \'ascii\' to decode b\'AL\\\\xffS\'",) '
                                            'str="cannot use encoding \'ascii\' to decode '
                                            'b\'AL\\\\xffS\'" cause=NoneType '
                                            'context=UnicodeDecodeError suppress=False',
 "record.parse(b'  12  ')": "raise construct.core.StreamError args=('Error in path (parsing) -> "
                            'scale\\nstream read less than specified amount, expected 8, found '
                            "2',) str='Error in path (parsing) -> scale\\nstream read less than "
                            "specified amount, expected 8, found 2' cause=NoneType "
                            'context=NoneType suppress=False',
 "record.parse(b'  x2    1.25ALOS 7')": 'raise builtins.ValueError args=("invalid literal for '
                                        'int() with base 10: \'x2\'",) str="invalid literal for '
                                        'int() with base 10: \'x2\'" cause=NoneType '
                                        'context=NoneType suppress=False',
 "record.parse(b'\\x00\\x00\\x00\\x00\\x00\\x00\\x00\\x00\\x00\\x00\\x00\\x00\\x00\\x00\\x00\\x00\\x00\\x00')": 'ok '
                                                                                                                'Container(count=int:-1, '
                                                                                                                'scale=float:nan, '
                                                                                                                "name=str:'', "
                                                                                                                'inner=Container(value=int:-1))',
 "record.parse_stream(b'                  ')": 'ok Container(count=int:-1, scale=float:nan, '
                                               "name=str:'', inner=Container(value=int:-1))",
 "record.parse_stream(b'                  ') consumed": 'int:18',
 "record.parse_stream(b'  12    1,25ALOS 7')": 'raise builtins.ValueError args=("could not convert '
                                               'string to float: \'1,25\'",) str="could not '
                                               'convert string to float: \'1,25\'" cause=NoneType '
                                               'context=NoneType suppress=False',
 "record.parse_stream(b'  12    1,25ALOS 7') consumed": 'int:12',
 "record.parse_stream(b'  12    1.25ALOS 7')": 'ok Container(count=int:12, scale=float:1.25, '
                                               "name=str:'ALOS', inner=Container(value=int:7))",
 "record.parse_stream(b'  12    1.25ALOS 7') consumed": 'int:18',
 "record.parse_stream(b'  12    1.25ALOS x')": 'raise builtins.ValueError args=("invalid literal '
                                               'for int() with base 10: \'x\'",) str="invalid '
                                               'literal for int() with base 10: \'x\'" '
                                               'cause=NoneType context=NoneType suppress=False',
 "record.parse_stream(b'  12    1.25ALOS x') consumed": 'int:18',
 "record.parse_stream(b'  12    1.25ALOS')": 'raise builtins.ValueError args=("invalid literal for '
                                             'int() with base 10: \'ta\'",) str="invalid literal '
                                             'for int() with base 10: \'ta\'" cause=NoneType '
                                             'context=NoneType suppress=False',
 "record.parse_stream(b'  12    1.25ALOS') consumed": 'int:18',
 "record.parse_stream(b'  12    1.25AL\\xffS 7')": 'raise construct.core.StringError args=("cannot '
                                                   "use encoding 'ascii' to decode "
                                                   'b\'AL\\\\xffS\'",) str="cannot use encoding '
                                                   '\'ascii\' to decode b\'AL\\\\xffS\'" '
                                                   'cause=NoneType context=UnicodeDecodeError '
                                                   'suppress=False',
 "record.parse_stream(b'  12    1.25AL\\xffS 7') consumed": 'int:16',
 "record.parse_stream(b'  12  ')": "raise construct.core.StreamError args=('Error in path "
                                   '(parsing) -> scale\\nstream read less than specified amount, '
                                   "expected 8, found 6',) str='Error in path (parsing) -> "
                                   'scale\\nstream read less than specified amount, expected 8, '
                                   "found 6' cause=NoneType context=NoneType suppress=False",
 "record.parse_stream(b'  12  ') consumed": 'int:10',
 "record.parse_stream(b'  x2    1.25ALOS 7')": 'raise builtins.ValueError args=("invalid literal '
                                               'for int() with base 10: \'x2\'",) str="invalid '
                                               'literal for int() with base 10: \'x2\'" '
                                               'cause=NoneType context=NoneType suppress=False',
 "record.parse_stream(b'  x2    1.25ALOS 7') consumed": 'int:4',
 "record.parse_stream(b'\\x00\\x00\\x00\\x00\\x00\\x00\\x00\\x00\\x00\\x00\\x00\\x00\\x00\\x00\\x00\\x00\\x00\\x00')": 'ok '
                                                                                                                       'Container(count=int:-1, '
                                                                                                                       'scale=float:nan, '
                                                                                                                       "name=str:'', "
                                                                                                                       'inner=Container(value=int:-1))',
 "record.parse_stream(b'\\x00\\x00\\x00\\x00\\x00\\x00\\x00\\x00\\x00\\x00\\x00\\x00\\x00\\x00\\x00\\x00\\x00\\x00') consumed": 'int:18'}
# EXPECTED-END


def compare():
    actual = observe()
    problems = []
    for key in sorted(set(actual) | set(EXPECTED)):
        if key not in actual:
            problems.append(f"missing observation {key!r}")
        elif key not in EXPECTED:
            problems.append(f"unexpected observation {key!r}: {actual[key]}")
        elif actual[key] != EXPECTED[key]:
            problems.append(f"{key!r}:\n    expected {EXPECTED[key]}\n    actual   {actual[key]}")
    return actual, problems


def test_equivalence():
    actual, problems = compare()
    assert len(actual) > 50
    assert not problems, "\n".join(problems)


def record():
    path = pathlib.Path(__file__)
    source = path.read_text()
    head, rest = source.split("# EXPECTED-BEGIN\n", 1)
    _, tail = rest.split("# EXPECTED-END\n", 1)
    body = "EXPECTED = " + pprint.pformat(observe(), width=100, sort_dicts=True) + "\n"
    path.write_text(head + "# EXPECTED-BEGIN\n" + body + "# EXPECTED-END\n" + tail)


if __name__ == "__main__":
    if "--record" in sys.argv[1:]:
        record()
        print("recorded", len(observe()), "observations")
        sys.exit(0)

    actual, problems = compare()
    if problems:
        print("\n".join(problems))
        print(f"FAILED: {len(problems)} of {len(actual)} observations differ")
        sys.exit(1)
    print(f"OK: {len(actual)} observations identical to the recorded ones")
